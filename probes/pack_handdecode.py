import zipfile, zlib, csv, math
def f16(a,b):
    sign=a>>7; e=(a>>2)&0x1f; f=((a&3)<<8)|b
    x=f/1024.
    if e: x+=1.; e-=15
    else: e=-14
    x=math.ldexp(x,e)
    return -x if sign else x
def decode(d):
    assert d[0]==2
    na=d[1]<<4|d[2]>>4; ct=(d[2]&0xf)<<8|d[3]
    atoms=[]; sh=4; nb=0
    for i in range(na):
        a,b=d[sh],d[sh+1]; n=a<<4|b>>4; k=b&0xf; nb+=k
        a,b=d[sh+2],d[sh+3]; st=a>>4; iso=(a&0xf)<<1|b>>7; z=b&0x7f
        x=f16(d[sh+4],d[sh+5]); y=f16(d[sh+6],d[sh+7])
        a=d[sh+8]; h=a>>5; ch=((a>>1)&0xf)-4; r=a&1
        atoms.append((n,k,st,iso,z,x,y,h,ch,r)); sh+=9
    nb//=2
    conn=[]
    for i in range(nb):
        a,b,c=d[sh],d[sh+1],d[sh+2]; conn+= [a<<4|b>>4,(b&0xf)<<8|c]; sh+=3
    oc=(nb*3+7)//8
    bits=''.join(f'{x:08b}' for x in d[sh:sh+oc]); orders=[int(bits[3*i:3*i+3],2)+1 for i in range(nb)]
    sh+=oc
    cts=[]
    for i in range(ct):
        a,b,c,dd=d[sh:sh+4]; cts.append((a<<4|b>>4,(b&0xf)<<8|c,dd)); sh+=4
    assert sh==len(d),(sh,len(d))
    return atoms,conn,orders,cts
if __name__=='__main__':
    z=zipfile.ZipFile('/repo/pach/SI.zip')
    rows=[r['smiles'] for r in csv.DictReader(open('/repo/pach/lipophilicity.csv'))]
    from rdkit import Chem
    ok=bad=0
    import collections
    stat=collections.Counter()
    for i in range(0,4200,7):
        d=zlib.decompress(z.read(f'data/{i}.pach'))
        atoms,conn,orders,cts=decode(d)
        rm=Chem.MolFromSmiles(rows[i])
        zs=sorted(a[4] for a in atoms); rz=sorted(a.GetAtomicNum() for a in rm.GetAtoms())
        if zs==rz: ok+=1
        else: bad+=1
        stat['ct']+=len(cts); stat['stereo']+=sum(1 for a in atoms if a[2]); stat['arom']+=orders.count(4)
        stat['xy0']+=sum(1 for a in atoms if a[5]==0 and a[6]==0); stat['atoms']+=len(atoms)
        stat['num_eq_index'] += all(a[0]==j+1 for j,a in enumerate(atoms))
    print(ok,bad,stat)
    d=zlib.decompress(z.read('data/0.pach')); print(rows[0]); print(decode(d)[0][:4], decode(d)[2][:12])
