import sys; import os; sys.path.insert(0, os.path.dirname(os.path.abspath(__file__))); sys.path.insert(0, '/repo')
import shim, itertools, collections, time
from chython import MoleculeContainer, smiles
def graphs(n, maxmu):
    pairs = list(itertools.combinations(range(n), 2)); seen = set(); out = []
    for bits in range(1 << len(pairs)):
        edges = [pairs[i] for i in range(len(pairs)) if bits >> i & 1]
        if len(edges) < n - 1 or len(edges) - n + 1 > maxmu: continue
        adj = {i: set() for i in range(n)}
        for a, b in edges: adj[a].add(b); adj[b].add(a)
        if max(len(v) for v in adj.values()) > 4: continue
        st = [0]; vis = {0}
        while st:
            x = st.pop()
            for y in adj[x]:
                if y not in vis: vis.add(y); st.append(y)
        if len(vis) < n: continue
        out.append(edges)
    return out  # labelled (all numberings appear as distinct edge sets)
def build(n, edges, elems, orders):
    m = MoleculeContainer()
    for i in range(n): m.add_atom(elems[i], i + 1, _skip_calculation=True)
    for (a, b), o in zip(edges, orders): m.add_bond(a + 1, b + 1, o, _skip_calculation=True)
    m.fix_structure(); return m
def ref_maps(p, t):
    pa = list(p._atoms); res = []
    comps_p = p.connected_components; comp_of_p = {a: i for i, c in enumerate(comps_p) for a in c}
    comp_of_t = {a: i for i, c in enumerate(t.connected_components) for a in c}
    for img in itertools.permutations(list(t._atoms), len(pa)):
        mp = dict(zip(pa, img)); ok = True
        for a in pa:
            if not (p._atoms[a] == t._atoms[mp[a]]): ok = False; break
        if not ok: continue
        for a, b in itertools.combinations(pa, 2):
            pb = p._bonds[a].get(b); tb = t._bonds[mp[a]].get(mp[b])
            if pb is not None:
                if tb is None or not (pb == tb): ok = False; break
            elif tb is not None and comp_of_p[a] == comp_of_p[b]: ok = False; break
            if comp_of_p[a] != comp_of_p[b] and comp_of_t[mp[a]] == comp_of_t[mp[b]]: ok = False; break
            if comp_of_p[a] == comp_of_p[b] and comp_of_t[mp[a]] != comp_of_t[mp[b]]: ok = False; break
        if ok: res.append(frozenset(mp.items()))
    return set(res)
def main():
    t0 = time.time()
    pats = []
    for n in (1, 2, 3, 4):
        gs = graphs(n, 1)
        canon = {}
        for e in gs: canon.setdefault(tuple(sorted(collections.Counter(x for p in e for x in p).values())) + (len(e),), e)
        for e in canon.values():
            for elems in itertools.product('CN', repeat=n):
                if elems.count('N') > 1: continue
                pats.append(build(n, e, elems, [1] * len(e)))
    tars = []
    for n in (3, 4, 5):
        for e in graphs(n, 2):
            if e != sorted(e): continue
            for elems in itertools.product('CN', repeat=n):
                if elems.count('N') > 1: continue
                tars.append(build(n, e, elems, [1] * len(e)))
    tars = tars[::7]
    # two-component target and pattern
    tars.append(smiles('CCN.CC')); tars.append(smiles('C1CC1.CN')); pats.append(smiles('C.C')); pats.append(smiles('CC.N'))
    print(len(pats), len(tars))
    bad = 0; n = 0
    for p in pats:
        for t in tars:
            got = [frozenset(m.items()) for m in p.get_mapping(t, automorphism_filter=False)]
            exp = ref_maps(p, t); n += 1
            if len(got) != len(set(got)) or set(got) != exp:
                bad += 1
                if bad < 6: print('MISMATCH', str(p), str(t), len(got), len(set(got)), len(exp))
            gotf = [frozenset(m.values()) for m in p.get_mapping(t)]
            if len(gotf) != len(set(gotf)) or set(gotf) != {frozenset(v for _, v in m) for m in exp}:
                bad += 1
                if bad < 6: print('FILTER MISMATCH', str(p), str(t))
    print(n, bad, time.time() - t0)
main()
