import sys; import os; sys.path.insert(0, os.path.dirname(os.path.abspath(__file__)))
from rings_probe import *
from rings_probe import _connected_components, _sssr
import multiprocessing as mp
n = 7
pairs = list(itertools.combinations(range(n), 2))
def work(shard):
    res = collections.Counter(); fails = {}
    for bits in range(shard, 1 << len(pairs), 64):
        if bin(bits).count('1') < n or bin(bits).count('1') > n - 1 + 5: continue
        edges = [pairs[i] for i in range(len(pairs)) if bits >> i & 1]
        deg = collections.Counter(x for e in edges for x in e)
        if len(deg) < n or max(deg.values()) > 4: continue
        adj = {i + 1: set() for i in range(n)}
        for a, b in edges: adj[a + 1].add(b + 1); adj[b + 1].add(a + 1)
        if len(_connected_components(adj)) != 1: continue
        res['labelled'] += 1
        r = check(adj)
        if r:
            key = (len(edges) - n + 1, r.split()[0]); res[key] += 1
            fails.setdefault(key, edges)
    return res, fails
if __name__ == '__main__':
    t = time.time()
    with mp.Pool(16) as p: out = p.map(work, range(64))
    tot = collections.Counter(); ex = {}
    for r, f in out: tot.update(r); ex.update(f)
    print(tot, time.time() - t)
    for k, v in ex.items(): print(k, v)
