import sys; import os; sys.path.insert(0, os.path.dirname(os.path.abspath(__file__))); sys.path.insert(0, '/repo')
import shim, itertools, collections, time
from chython import MoleculeContainer
def canon(n, edges):
    best = None
    for p in itertools.permutations(range(n)):
        k = tuple(sorted((min(p[a], p[b]), max(p[a], p[b])) for a, b in edges))
        if best is None or k < best: best = k
    return best
def build(n, edges, perm, elems=None):
    m = MoleculeContainer()
    for i in range(n): m.add_atom((elems or ['C']*n)[i], perm[i], _skip_calculation=True)
    for a, b in edges: m.add_bond(perm[a], perm[b], 1, _skip_calculation=True)
    m.fix_structure(); return m
def main():
    t = time.time(); fails = []
    tot = 0
    for n in range(3, 7):
        pairs = list(itertools.combinations(range(n), 2)); seen = set()
        for bits in range(1 << len(pairs)):
            edges = [pairs[i] for i in range(len(pairs)) if bits >> i & 1]
            if len(edges) < n - 1: continue
            deg = collections.Counter(x for e in edges for x in e)
            if len(deg) < n or max(deg.values()) > 4: continue
            # connectivity
            adj = {i: set() for i in range(n)}
            for a, b in edges: adj[a].add(b); adj[b].add(a)
            st = [0]; vis = {0}
            while st:
                x = st.pop()
                for y in adj[x]:
                    if y not in vis: vis.add(y); st.append(y)
            if len(vis) < n: continue
            if len(edges) - n + 1 > 4: continue
            k = canon(n, edges)
            if k in seen: continue
            seen.add(k); tot += 1
            outs = set()
            for perm in itertools.permutations(range(1, n + 1)):
                outs.add(str(build(n, edges, perm)))
            if len(outs) > 1: fails.append((n, len(edges) - n + 1, edges, sorted(outs)))
    print('classes', tot, 'fail', len(fails), time.time() - t)
    for f in fails: print(f)
main()
