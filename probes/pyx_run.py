import sys; import os; sys.path.insert(0, os.path.dirname(os.path.abspath(__file__))); sys.path.insert(0, '/repo')
import shim, zipfile, zlib, csv
import pyx_translate as tr
from chython import smiles, MoleculeContainer
nsu, textu = tr.translate('/repo/chython/containers/_unpack_v0v2.pyx', {})
nsp, textp = tr.translate('/repo/chython/containers/_pack_v2.pyx', {})
z = zipfile.ZipFile('/repo/pach/SI.zip')
rows = [r['smiles'] for r in csv.DictReader(open('/repo/pach/lipophilicity.csv'))]
ok = bad = 0; reenc = 0
import time; t = time.time()
for i in range(0, 4200, 21):
    d = zlib.decompress(z.read(f'data/{i}.pach'))
    mol, ct, size = nsu['unpack'](d)
    for n, m, s in ct:
        if n in mol._stereo_cis_trans_centers:
            mol.bond(*mol._stereo_cis_trans_centers[n])._stereo = s
    mol.calc_labels()
    assert size == len(d)
    re1 = nsp['pack'](mol)
    m2 = smiles(rows[i]); re2 = nsp['pack'](m2)
    reenc += re1 == d
    if re1 == d and re2 == d: ok += 1
    else:
        bad += 1
        if bad < 0: print(i, rows[i], re1 == d, re2 == d, str(mol), str(m2))
print('decode->re-encode identical:', reenc, 'of', ok + bad, '| also identical when re-packed from the CSV spelling:', ok, '|', round(time.time() - t, 1), 's')
