"""probe: size of the C13 history space (no invariants checked here) — numbers for DESIGN.md only"""
import sys, os; sys.path.insert(0, os.path.dirname(os.path.abspath(__file__))); sys.path.insert(0, '/repo')
import shim, time, collections, itertools
from chython import MoleculeContainer
MAXA = 5
def fresh(seed):
    m = MoleculeContainer()
    for n, e in seed[0]: m.add_atom(e, n)
    for a, b, o in seed[1]: m.add_bond(a, b, o)
    return m
def events(m):
    ev = []
    atoms = list(m); n = len(atoms)
    if n < MAXA:
        for e in 'CNO': ev.append(('add_atom', e))
    for a, b in itertools.combinations(atoms, 2):
        if b in m._bonds[a]: ev.append(('delete_bond', a, b))
        else:
            for o in (1, 2): ev.append(('add_bond', a, b, o))
    for a in atoms:
        if n > 1: ev.append(('delete_atom', a))
        for c in (1, -1): ev.append(('charge', a, c))
        ev.append(('radical', a))
    return ev
def apply(m, ev):
    k = ev[0]
    if k == 'add_atom': m.add_atom(ev[1])
    elif k == 'add_bond': m.add_bond(ev[1], ev[2], ev[3])
    elif k == 'delete_bond':
        m.delete_bond(ev[1], ev[2]); m.flush_cache()
    elif k == 'delete_atom':
        m.delete_atom(ev[1]); m.flush_cache()
    elif k == 'charge':
        with m: m.atom(ev[1]).charge = ev[2] if m.atom(ev[1]).charge != ev[2] else 0
        m.flush_cache()
    elif k == 'radical':
        with m: m.atom(ev[1]).is_radical = not m.atom(ev[1]).is_radical
        m.flush_cache()
def key(m):
    return (tuple((n, a.atomic_number, a.charge, a.is_radical) for n, a in m.atoms()), tuple((n, tuple((k, b.order) for k, b in ms.items())) for n, ms in m._bonds.items()))
def replay(seed, hist):
    m = fresh(seed)
    for ev in hist: apply(m, ev)
    return m
seeds = [([(1, 'C')], []), ([(1, 'C'), (2, 'C')], [(1, 2, 1)]), ([(1, 'C'), (2, 'C'), (3, 'O')], [(1, 2, 1), (2, 3, 1)]), ([(1, 'C'), (2, 'C'), (3, 'C')], [(1, 2, 1), (2, 3, 1), (1, 3, 1)])]
t = time.time(); tot_states = 0; tot_trans = 0
for seed in seeds:
    seen = {key(fresh(seed))}; frontier = [[]]
    for depth in range(1, 4):
        nxt = []
        for h in frontier:
            m = replay(seed, h)
            for ev in events(m):
                m2 = replay(seed, h)
                try: apply(m2, ev)
                except Exception as e: continue
                tot_trans += 1
                str(m2); m2.sssr  # representative reads
                k = key(m2)
                if k not in seen: seen.add(k); nxt.append(h + [ev])
        frontier = nxt
        print('seed', seed[0], 'depth', depth, 'states so far', len(seen), 'frontier', len(frontier), 'transitions', tot_trans, round(time.time() - t, 1), 's', flush=True)
    tot_states += len(seen)
print('total states', tot_states, 'transitions', tot_trans, round(time.time() - t, 1), 's single core')
