import CachedMethods as CM
_S = CM._SENTINEL
def __get__(self, obj, cls):
    if obj is None:
        return self
    d = getattr(obj, '__dict__', None)
    if d is not None:
        v = d.get(self.name, _S)
        if v is not _S:
            return v
    cc = cls.__class_cache__.get(cls)
    if cc is None:
        cc = cls.__class_cache__[cls] = {}
    v = cc.get(self.name, _S)
    if v is _S:
        v = CM._freeze(self.func(obj))
        cc[self.name] = v
    if d is not None:
        d[self.name] = v
    return v
CM.class_cached_property.__get__ = __get__
