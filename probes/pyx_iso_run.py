"""probe: translate _isomorphism.pyx and compare the bit-mask matcher with the pure-Python matcher"""
import sys, os, types; sys.path.insert(0, os.path.dirname(os.path.abspath(__file__))); sys.path.insert(0, '/repo')
import shim, csv, collections, time
import pyx_translate as tr
ns, text = tr.translate('/repo/chython/algorithms/_isomorphism.pyx', {})
mod = types.ModuleType('chython.algorithms._isomorphism'); mod.get_mapping = ns['get_mapping']
sys.modules['chython.algorithms._isomorphism'] = mod
import chython.algorithms; chython.algorithms._isomorphism = mod
from chython import smiles, smarts
rows = [r['smiles'] for r in csv.DictReader(open('/repo/pach/lipophilicity.csv'))][:150]
qs = ['[C;D3;z2]=O', '[N;D1,D2][C;a]', 'c1ccccc1', '[A]-[Cl,Br]', '[C;r5,r6]-;!@[N]', '[O,S;D1][C;z2]', 'C1CCNCC1', '[N;h1,h2]', '[C;x2]', '[A]~[A]~[A]', 'CC(=O)N', '[C;!R]-[C;!R]', '[N+]', 'C.N']
res = collections.Counter(); t = time.time()
for qsm in qs:
    q = smarts(qsm)
    for s in rows:
        m = smiles(s); m.kekule(); m.thiele()
        a = sorted(sorted(x.items()) for x in q.get_mapping(m, automorphism_filter=False, _cython=True))
        b = sorted(sorted(x.items()) for x in q.get_mapping(m, automorphism_filter=False, _cython=False))
        if a != b:
            res['DIFF ' + qsm] += 1
            if res['DIFF ' + qsm] < 2: print('DIFF', qsm, s, len(a), len(b))
        else:
            res['same'] += 1; res['mappings'] += len(a)
print(res, round(time.time() - t, 1), 's')
