import sys; import os; sys.path.insert(0, os.path.dirname(os.path.abspath(__file__))); sys.path.insert(0, '/repo')
import shim, itertools, collections, time
from chython.algorithms.rings import _sssr, _connected_components
from chython.exceptions import ImplementationError

def mcb_sizes(adj):
    nodes = sorted(adj); edges = sorted({(min(a,b),max(a,b)) for a in adj for b in adj[a]})
    eid = {e:i for i,e in enumerate(edges)}
    comps = 0; seen=set()
    for s in nodes:
        if s in seen: continue
        comps += 1; st=[s]; seen.add(s)
        while st:
            x=st.pop()
            for y in adj[x]:
                if y not in seen: seen.add(y); st.append(y)
    mu = len(edges)-len(nodes)+comps
    cand = set()
    for v in nodes:
        par={v:None}; q=[v]
        for x in q:
            for y in sorted(adj[x]):
                if y not in par: par[y]=x; q.append(y)
        def path(x):
            p=[]; 
            while x is not None: p.append(x); x=par[x]
            return p
        for (x,y) in edges:
            if x in par and y in par and par.get(x)!=y and par.get(y)!=x:
                px,py=path(x),path(y)
                if set(px)&set(py)=={v}:
                    m=0
                    for a,b in zip(px,px[1:]): m|=1<<eid[(min(a,b),max(a,b))]
                    for a,b in zip(py,py[1:]): m|=1<<eid[(min(a,b),max(a,b))]
                    m|=1<<eid[(x,y)]
                    cand.add((bin(m).count('1'),m))
    basis=[]; sizes=[]
    for sz,m in sorted(cand):
        r=m
        for b in basis: r=min(r,r^b)
        if r:
            basis.append(r); basis.sort(reverse=True); sizes.append(sz)
            if len(sizes)==mu: break
    assert len(sizes)==mu,(len(sizes),mu)
    return sorted(sizes), edges, eid

def check(adj):
    sizes, edges, eid = mcb_sizes(adj)
    mu = len(sizes)
    if mu == 0: return None
    try:
        rings = _sssr({n:set(ms) for n,ms in adj.items()}, mu)
    except ImplementationError as e:
        return 'ImplementationError'
    except Exception as e:
        return 'EXC '+type(e).__name__
    if len(rings)!=mu: return 'count'
    masks=[]
    for r in rings:
        if len(set(r))!=len(r): return 'notsimple'
        m=0
        for a,b in zip(r, r[1:]+(r[0],)):
            e=(min(a,b),max(a,b))
            if e not in eid: return 'nonbond'
            m|=1<<eid[e]
        masks.append(m)
    basis=[]
    for m in masks:
        r=m
        for b in basis: r=min(r,r^b)
        if not r: return 'dependent'
        basis.append(r); basis.sort(reverse=True)
    if sorted(len(r) for r in rings)!=sizes: return 'notminimal %s vs %s'%(sorted(len(r) for r in rings), sizes)
    return None

def canon(n, edges):
    best=None
    for p in itertools.permutations(range(n)):
        k=tuple(sorted((min(p[a],p[b]),max(p[a],p[b])) for a,b in edges))
        if best is None or k<best: best=k
    return best

res = collections.Counter(); fails = {}
t=time.time()
for n in range(3, 7):
    pairs=list(itertools.combinations(range(n),2))
    classes=set()
    for bits in range(1<<len(pairs)):
        edges=[pairs[i] for i in range(len(pairs)) if bits>>i&1]
        if len(edges)<n: continue  # need a ring (connected => >= n edges for mu>=1)
        deg=collections.Counter(x for e in edges for x in e)
        if len(deg)<n or max(deg.values())>4: continue
        adj={i+1:set() for i in range(n)}
        for a,b in edges: adj[a+1].add(b+1); adj[b+1].add(a+1)
        if len(_connected_components(adj))!=1: continue
        mu=len(edges)-n+1
        if mu>5: continue
        res[(n,'labelled')]+=1
        r=check(adj)
        if r:
            res[(n,'FAIL',r.split()[0])]+=1
            fails.setdefault((n,mu,r.split()[0]),[]).append(edges)
print(res, time.time()-t)
for k,v in fails.items(): print(k, len(v), v[0])
