"""Plain unit tests (no explorer): every recorded history / input that failed before its fix commit must pass now.
Run:  cd /verif && PYTHONHASHSEED=0 /venv/bin/python -m pytest -q tests"""
import glob
import importlib
import json
import os
import sys

import pytest

HERE = os.path.dirname(os.path.dirname(os.path.abspath(__file__)))
sys.path.insert(0, HERE)
from vf import boot  # noqa: E402

boot.boot()
FILES = sorted(glob.glob(os.path.join(HERE, 'replays', 'fixed', '*.json')))


@pytest.mark.parametrize('path', FILES, ids=[os.path.basename(p)[:-5] for p in FILES])
def test_replay(path):
    rec = json.load(open(path))
    mod = importlib.import_module('vf.props.' + rec['property'].lower())
    fails = mod.replay(rec)
    if rec['key'] == 'ANY':
        from vf.core import Acc
        acc = Acc()
        mod.judge(acc, rec['text'], rdkit=True, source='replay')
        fails = [f for f in acc.fails if not any(k in f['key'] for k in ('replaced by a calculated one',))]
    assert not fails, fails
