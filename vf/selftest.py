import sys
from vf import boot
boot.boot()
import chython
m = chython.smiles('c1ccccc1C(=O)O')
assert str(m) == 'OC(=O)c1ccccc1' or len(m) == 9, str(m)
assert len(m.sssr) == 1
print('setup ok: chython from', chython.__file__)
