"""Independent fragment enumerators for C17 (plain dict graphs, built-in tuple hash as documented)."""


def atom_ids(atoms):
    """atoms: dict n -> (isotope|None, Z, charge, radical)"""
    return {n: hash((a[0] or 0, a[1], a[2], a[3])) for n, a in atoms.items()}


def simple_paths(adj, lo, hi):
    """every undirected simple path with lo..hi atoms, once (as tuple with first < last, single atoms as 1-tuples)"""
    out = []
    if lo <= 1 <= hi:
        out.extend((n,) for n in adj)

    def rec(path, seen):
        if len(path) >= max(lo, 2) and path[0] < path[-1]:
            out.append(tuple(path))
        if len(path) == hi:
            return
        for y in adj[path[-1]]:
            if y not in seen:
                seen.add(y)
                path.append(y)
                rec(path, seen)
                path.pop()
                seen.discard(y)
    if hi >= 2:
        for s in adj:
            rec([s], {s})
    return out


def linear_fragments(atoms, adj, lo, hi):
    """descriptor -> number of undirected paths. adj: n -> {m: order}"""
    ids = atom_ids(atoms)
    cnt = {}
    for p in simple_paths(adj, lo, hi):
        var = [ids[p[0]]]
        for x, y in zip(p, p[1:]):
            var.append(adj[x][y])
            var.append(ids[y])
        var = tuple(var)
        rev = var[::-1]
        d = var if var > rev else rev
        cnt[d] = cnt.get(d, 0) + 1
    return cnt


def linear_hash_set(atoms, adj, lo, hi, nbp):
    if not nbp:
        nbp = 10 ** 9
    return {hash((*d, c)) for d, k in linear_fragments(atoms, adj, lo, hi).items() for c in range(min(k, nbp))}


def morgan_layers(atoms, adj, hi):
    ids = atom_ids(atoms)
    out = [ids]
    for _ in range(1, hi):
        ids = {n: hash((ids[n], *(x for t in sorted((o, ids[m]) for m, o in adj[n].items()) for x in t))) for n in ids}
        out.append(ids)
    return out


def morgan_hash_set(atoms, adj, lo, hi):
    layers = morgan_layers(atoms, adj, hi)
    return {v for layer in layers[lo - 1:hi] for v in layer.values()}


def fold(hashes, length, nab):
    log = length.bit_length() - 1
    mask = length - 1
    return {(h >> (i * log)) & mask for h in hashes for i in range(nab)}
