"""Permutation parity (independent of chython)."""


def parity(seq, ref):
    """True if seq is an odd permutation of ref (both sequences of the same distinct items)"""
    pos = {x: i for i, x in enumerate(ref)}
    p = [pos[x] for x in seq]
    odd = False
    seen = [False] * len(p)
    for i in range(len(p)):
        if seen[i]:
            continue
        j = i
        ln = 0
        while not seen[j]:
            seen[j] = True
            j = p[j]
            ln += 1
        if ln % 2 == 0:
            odd = not odd
    return odd
