"""RDKit-side helpers (independent construction and comparison; never goes through chython's bridge)."""
from rdkit import Chem, RDLogger

RDLogger.DisableLog('rdApp.*')
ORDER = {1: Chem.BondType.SINGLE, 2: Chem.BondType.DOUBLE, 3: Chem.BondType.TRIPLE, 4: Chem.BondType.AROMATIC}


def from_spec(spec, sanitize=True):
    """RDKit molecule built directly from a plain spec (atoms: (symbol, charge, radical, isotope); bonds: (a, b, order))."""
    rw = Chem.RWMol()
    for sym, ch, rad, iso in spec['atoms']:
        a = Chem.Atom(sym)
        a.SetFormalCharge(ch)
        if rad:
            a.SetNumRadicalElectrons(1)
        if iso:
            a.SetIsotope(iso)
        rw.AddAtom(a)
    for x, y, o in spec['bonds']:
        rw.AddBond(x, y, ORDER[o])
    m = rw.GetMol()
    if sanitize:
        try:
            Chem.SanitizeMol(m)
        except Exception:
            return None
    return m


def canon(m, maps=False):
    m = Chem.Mol(m)
    if not maps:
        for a in m.GetAtoms():
            a.SetAtomMapNum(0)
    return Chem.MolToSmiles(m)


def same(a, b):
    """equal for RDKit: canonical isomeric SMILES or (same size and mutual chirality-aware substructure match)"""
    ca, cb = canon(a), canon(b)
    if ca == cb:
        return True
    if a.GetNumAtoms() != b.GetNumAtoms() or a.GetNumBonds() != b.GetNumBonds():
        return False
    a2, b2 = Chem.MolFromSmiles(ca), Chem.MolFromSmiles(cb)
    if a2 is None or b2 is None:
        return False
    # a bond of unspecified type matches every bond in a substructure search: bond types must agree as multisets before the match means identity
    if sorted(str(x.GetBondType()) for x in a2.GetBonds()) != sorted(str(x.GetBondType()) for x in b2.GetBonds()):
        return False
    return a2.HasSubstructMatch(b2, useChirality=True) and b2.HasSubstructMatch(a2, useChirality=True)


def atom_sig(a):
    return (a.GetSymbol(), a.GetIsotope() or None, a.GetFormalCharge(), bool(a.GetNumRadicalElectrons()), a.GetTotalNumHs())


def noncarbon_stereo(m):
    return any(a.GetChiralTag() != Chem.ChiralType.CHI_UNSPECIFIED and a.GetSymbol() != 'C' for a in m.GetAtoms())
