"""Independent symmetry oracle for the two stated domain exclusions of C01 (also used by C12/C02 reporting).

Works on a plain labelled graph: atoms: dict n -> label (hashable, stereo-free), adj: dict n -> {m: order}."""
from . import cycles, iso


def orbits(atoms, adj):
    """constitutional equivalence classes of atoms = orbits of the stereo-free automorphism group (brute force for small
    graphs, colour refinement fallback for large ones -- refinement may merge more, which only widens an exclusion)."""
    nodes = list(atoms)
    if len(nodes) <= 9:
        idx = {n: i for i, n in enumerate(nodes)}
        edges = sorted({(min(idx[a], idx[b]), max(idx[a], idx[b])) for a in adj for b in adj[a]})
        el = {frozenset((idx[a], idx[b])): adj[a][b] for a in adj for b in adj[a]}
        orb, _ = iso.orbits(len(nodes), edges, [atoms[n] for n in nodes], el)
        return {n: orb[idx[n]] for n in nodes}
    col = {n: hash((atoms[n], len(adj[n]))) for n in nodes}
    for _ in range(len(nodes)):
        new = {n: hash((col[n], tuple(sorted((adj[n][m], col[m]) for m in adj[n])))) for n in nodes}
        if len(set(new.values())) == len(set(col.values())):
            break
        col = new
    return col


def excl_i(atoms, adj, stereo_atoms, stereo_bonds, orb=None):
    """(i) a stereo-labelled centre, or an end of a stereo-labelled double bond / cumulene, two of whose substituents are
    constitutionally equivalent."""
    orb = orb or orbits(atoms, adj)
    for n in stereo_atoms:
        o = [orb[m] for m in adj[n]]
        if len(set(o)) < len(o):
            return True
    for ends in stereo_bonds:
        for x, y in ends:   # (terminal atom, its neighbour inside the double-bond chain)
            o = [orb[m] for m in adj[x] if m != y]
            if len(set(o)) < len(o):
                return True
    return False


def _reduced(sub):
    """homeomorphic reduction of a biconnected ring system: atoms with two ring neighbours are suppressed, parallel edges merged.
    Returns the simple graph on the branching atoms."""
    branch = [n for n in sub if len(sub[n]) >= 3]
    red = {n: set() for n in branch}
    for n in branch:
        for m in sub[n]:
            prev, cur = n, m
            while len(sub[cur]) == 2:
                nxt = next(x for x in sub[cur] if x != prev)
                prev, cur = cur, nxt
            if cur != n:
                red[n].add(cur)
    return red


def _three_connected(g):
    """simple graph with >= 4 vertices that stays connected after removing any two vertices (polyhedral skeleton)"""
    nodes = list(g)
    if len(nodes) < 4 or any(len(g[n]) < 3 for n in nodes):
        return False

    def connected(skip):
        rest = [n for n in nodes if n not in skip]
        if not rest:
            return True
        seen = {rest[0]}
        st = [rest[0]]
        while st:
            x = st.pop()
            for y in g[x]:
                if y not in skip and y not in seen:
                    seen.add(y)
                    st.append(y)
        return len(seen) == len(rest)
    for i, a in enumerate(nodes):
        if not connected({a}):
            return False
        for b in nodes[i + 1:]:
            if not connected({a, b}):
                return False
    return True


def excl_ii(atoms, adj, orb=None):
    """(ii) "cage-like ring systems with three or more rings whose ring atoms are symmetry equivalent (prismane-like)", read graph-theoretically:
    a biconnected ring system with cyclomatic number >= 3 whose skeleton (two-coordinate ring atoms suppressed) is a polyhedral graph
    (3-connected: prism, cube, tetrahedron = adamantane, hexagonal prism = coronene) and that contains two constitutionally equivalent
    branching atoms; or the same with a saturated ring atom in the system (three-dimensional polycycles: prismane, its partly opened relatives,
    adamantane, twistane). Fully conjugated planar ring systems whose skeleton falls apart when two atoms are removed (anthracene,
    phenanthrene, triphenylene, perylene, biphenylene) are not cage-like under any reading and are inside the claimed domain; so are all
    systems with fewer than three rings."""
    orb = orb or orbits(atoms, adj)
    g = {n: set(adj[n]) for n in adj}
    for blk in cycles._blocks(g):
        sub = {n: g[n] & blk for n in blk}
        if cycles.cyclomatic(sub) < 3:
            continue
        red = _reduced(sub)
        saturated = any(all(o == 1 for o in adj[n].values()) for n in blk)   # a ring atom without any multiple / aromatic bond: not a planar conjugated system
        if not saturated and not _three_connected(red):
            continue
        seen = {}
        for n in red:
            if orb[n] in seen:
                return True
            seen[orb[n]] = n
    return False


def plain_from_chython(m):
    atoms = {n: (a.atomic_number, a.isotope, a.charge, a.is_radical) for n, a in m.atoms()}
    adj = {n: {k: b.order for k, b in m._bonds[n].items()} for n in m}
    st_atoms = [n for n, a in m.atoms() if a.stereo is not None]
    st_bonds = stereo_bond_ends(m)
    # allene centres: the label sits on the central atom; its "substituents" are those of the two terminal atoms
    return atoms, adj, st_atoms, st_bonds


def stereo_bond_ends(m):
    """terminal atoms of every stereo-labelled double bond / even cumulene (computed from the graph: walk along double bonds)"""
    out = []
    for n, k, b in m.bonds():
        if b.stereo is None:
            continue
        ends = []
        for start, away in ((n, k), (k, n)):
            cur, prev = start, away
            while True:
                nxt = [x for x, bb in m._bonds[cur].items() if bb.order == 2 and x != prev]
                if len(nxt) != 1 or len(m._bonds[cur]) != 2:
                    break
                prev, cur = cur, nxt[0]
            ends.append((cur, prev))
        out.append(tuple(ends))
    return out
