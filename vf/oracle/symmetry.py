"""Independent symmetry oracle for the two stated domain exclusions of C01 (also used by C12/C02 reporting).

Works on a plain labelled graph: atoms: dict n -> label (hashable, stereo-free), adj: dict n -> {m: order}."""
from . import cycles, iso


def orbits(atoms, adj):
    """constitutional equivalence classes of atoms = orbits of the stereo-free automorphism group (brute force for small
    graphs, colour refinement fallback for large ones -- refinement may merge more, which only widens an exclusion)."""
    nodes = list(atoms)
    if len(nodes) <= 9:
        idx = {n: i for i, n in enumerate(nodes)}
        edges = sorted({(min(idx[a], idx[b]), max(idx[a], idx[b])) for a in adj for b in adj[a]})
        el = {frozenset((idx[a], idx[b])): adj[a][b] for a in adj for b in adj[a]}
        orb, _ = iso.orbits(len(nodes), edges, [atoms[n] for n in nodes], el)
        return {n: orb[idx[n]] for n in nodes}
    col = {n: hash((atoms[n], len(adj[n]))) for n in nodes}
    for _ in range(len(nodes)):
        new = {n: hash((col[n], tuple(sorted((adj[n][m], col[m]) for m in adj[n])))) for n in nodes}
        if len(set(new.values())) == len(set(col.values())):
            break
        col = new
    return col


def excl_i(atoms, adj, stereo_atoms, stereo_bonds, orb=None):
    """(i) a stereo-labelled centre, or an end of a stereo-labelled double bond / cumulene, two of whose substituents are
    constitutionally equivalent."""
    orb = orb or orbits(atoms, adj)
    for n in stereo_atoms:
        o = [orb[m] for m in adj[n]]
        if len(set(o)) < len(o):
            return True
    for ends in stereo_bonds:
        for x, y in ends:   # (terminal atom, its neighbour inside the double-bond chain)
            o = [orb[m] for m in adj[x] if m != y]
            if len(set(o)) < len(o):
                return True
    return False


def excl_ii(atoms, adj, orb=None):
    """(ii) a biconnected ring system with cyclomatic number >= 3 that contains two constitutionally equivalent atoms each
    having >= 3 neighbours inside the system (prismane-like cages)."""
    orb = orb or orbits(atoms, adj)
    g = {n: set(adj[n]) for n in adj}
    for blk in cycles._blocks(g):
        sub = {n: g[n] & blk for n in blk}
        if cycles.cyclomatic(sub) < 3:
            continue
        heavy = [n for n in blk if len(sub[n]) >= 3]
        seen = {}
        for n in heavy:
            if orb[n] in seen:
                return True
            seen[orb[n]] = n
    return False


def plain_from_chython(m):
    atoms = {n: (a.atomic_number, a.isotope, a.charge, a.is_radical) for n, a in m.atoms()}
    adj = {n: {k: b.order for k, b in m._bonds[n].items()} for n in m}
    st_atoms = [n for n, a in m.atoms() if a.stereo is not None]
    st_bonds = stereo_bond_ends(m)
    # allene centres: the label sits on the central atom; its "substituents" are those of the two terminal atoms
    return atoms, adj, st_atoms, st_bonds


def stereo_bond_ends(m):
    """terminal atoms of every stereo-labelled double bond / even cumulene (computed from the graph: walk along double bonds)"""
    out = []
    for n, k, b in m.bonds():
        if b.stereo is None:
            continue
        ends = []
        for start, away in ((n, k), (k, n)):
            cur, prev = start, away
            while True:
                nxt = [x for x, bb in m._bonds[cur].items() if bb.order == 2 and x != prev]
                if len(nxt) != 1 or len(m._bonds[cur]) != 2:
                    break
                prev, cur = cur, nxt[0]
            ends.append((cur, prev))
        out.append(tuple(ends))
    return out
