"""Independent cycle-space oracle: components, bridges, Horton candidates + GF(2) elimination.

adj: dict node -> iterable of neighbours (symmetric). Nothing here imports chython.
"""


def components(adj):
    seen = set()
    out = []
    for s in adj:
        if s in seen:
            continue
        comp = {s}
        st = [s]
        seen.add(s)
        while st:
            x = st.pop()
            for y in adj[x]:
                if y not in seen:
                    seen.add(y)
                    comp.add(y)
                    st.append(y)
        out.append(comp)
    return out


def edges_of(adj):
    return sorted({(a, b) if a < b else (b, a) for a in adj for b in adj[a]})


def cyclomatic(adj):
    return len(edges_of(adj)) - len(adj) + len(components(adj))


def bridges(adj):
    """set of edges (a<b) whose removal disconnects their component (brute force: remove and search)."""
    out = set()
    for a, b in edges_of(adj):
        seen = {a}
        st = [a]
        found = False
        while st and not found:
            x = st.pop()
            for y in adj[x]:
                if x == a and y == b:
                    continue
                if y == b:
                    found = True
                    break
                if y not in seen:
                    seen.add(y)
                    st.append(y)
        if not found:
            out.add((a, b))
    return out


def _reduce(m, basis):
    for b in basis:
        if m ^ b < m:
            m ^= b
    return m


class Basis:
    """GF(2) row space with leading-bit reduction."""

    def __init__(self):
        self.rows = []

    def add(self, m):
        r = _reduce(m, self.rows)
        if not r:
            return False
        self.rows.append(r)
        self.rows.sort(reverse=True)
        return True


def candidate_cycles(adj):
    """Horton candidates: for every vertex v and edge (x,y): P(v,x)+P(v,y)+(x,y) when the two shortest
    paths share only v. Shortest paths are taken from ONE bfs tree per root, which is sufficient for a
    minimum cycle basis (Horton 1987). Returns set of (size, edge_mask), plus edge index."""
    edges = edges_of(adj)
    eid = {e: i for i, e in enumerate(edges)}
    cand = set()
    for v in adj:
        par = {v: None}
        q = [v]
        for x in q:
            for y in sorted(adj[x]):
                if y not in par:
                    par[y] = x
                    q.append(y)

        def path(x):
            p = []
            while x is not None:
                p.append(x)
                x = par[x]
            return p
        for (x, y) in edges:
            if x in par and y in par and par.get(x) != y and par.get(y) != x:
                px, py = path(x), path(y)
                if set(px) & set(py) == {v}:
                    m = 1 << eid[(x, y)]
                    for a, b in zip(px, px[1:]):
                        m |= 1 << eid[(a, b) if a < b else (b, a)]
                    for a, b in zip(py, py[1:]):
                        m |= 1 << eid[(a, b) if a < b else (b, a)]
                    cand.add((bin(m).count('1'), m))
    return cand, edges, eid


def mcb_sizes(adj):
    """sorted sizes of a minimum cycle basis (the multiset is an invariant of the graph: matroid greedy)."""
    mu = cyclomatic(adj)
    cand, edges, eid = candidate_cycles(adj)
    basis = Basis()
    sizes = []
    if mu:
        for sz, m in sorted(cand):
            if basis.add(m):
                sizes.append(sz)
                if len(sizes) == mu:
                    break
    assert len(sizes) == mu, (len(sizes), mu)
    return sizes, eid


def relevant_count(adj):
    """number of Horton candidates that can belong to SOME minimum cycle basis (Vismara relevant cycles
    restricted to the candidate family) -- when it equals the cyclomatic number the MCB is unique."""
    mu = cyclomatic(adj)
    cand, edges, eid = candidate_cycles(adj)
    by = {}
    for sz, m in cand:
        by.setdefault(sz, set()).add(m)
    basis = Basis()
    rel = 0
    for sz in sorted(by):
        smaller = list(basis.rows)
        for m in by[sz]:
            if _reduce(m, sorted(smaller, reverse=True)):
                rel += 1
        for m in by[sz]:
            basis.add(m)
    return rel, mu


def ring_mask(ring, eid):
    """edge mask of a ring given as atom tuple; None if an edge does not exist or atoms repeat."""
    if len(set(ring)) != len(ring) or len(ring) < 3:
        return None
    m = 0
    for a, b in zip(ring, ring[1:] + ring[:1]):
        e = (a, b) if a < b else (b, a)
        if e not in eid:
            return None
        m |= 1 << eid[e]
    return m


def check_basis(adj, rings):
    """returns None or a short reason why `rings` is not a minimum cycle basis of adj."""
    sizes, eid = mcb_sizes(adj)
    if len(rings) != len(sizes):
        return 'count %d!=%d' % (len(rings), len(sizes))
    b = Basis()
    for r in rings:
        m = ring_mask(tuple(r), eid)
        if m is None:
            return 'notcycle'
        if not b.add(m):
            return 'dependent'
    got = sorted(len(r) for r in rings)
    if got != sizes:
        return 'notminimal'
    return None


def theta_core_gap(adj):
    """True if the graph (after stripping pendant trees) has a 2-connected block with cyclomatic number 2
    whose three branch paths all have >= 3 bonds (bicyclo[2.2.2]octane-like). Recorded heuristic gap (C06)."""
    g = {n: set(ms) for n, ms in adj.items()}
    while True:
        leaves = [n for n, ms in g.items() if len(ms) <= 1]
        if not leaves:
            break
        for n in leaves:
            for m in g.pop(n):
                g[m].discard(n)
    br = bridges(g)
    for a, b in br:
        g[a].discard(b)
        g[b].discard(a)
    for comp in components(g):
        sub = {n: g[n] & comp for n in comp}
        if cyclomatic(sub) < 2:
            continue
        for blk in _blocks(sub):
            bsub = {n: sub[n] & blk for n in blk}
            if cyclomatic(bsub) != 2:
                continue
            d3 = [n for n in bsub if len(bsub[n]) == 3]
            if len(d3) != 2 or any(len(bsub[n]) not in (2, 3) for n in bsub):
                continue
            u, v = d3
            lens = []
            for s in bsub[u]:
                ln = 1
                p, c = u, s
                while c != v:
                    nx = [x for x in bsub[c] if x != p]
                    if len(nx) != 1:
                        break
                    p, c = c, nx[0]
                    ln += 1
                lens.append(ln)
            if len(lens) == 3 and min(lens) >= 3:
                return True
    return False


def _blocks(adj):
    """vertex sets of biconnected components with >= 3 vertices (brute force via articulation removal)."""
    # Hopcroft-Tarjan
    idx = {}
    low = {}
    stack = []
    out = []
    counter = [0]

    def dfs(u, parent):
        idx[u] = low[u] = counter[0]
        counter[0] += 1
        for w in adj[u]:
            if w == parent:
                continue
            if w not in idx:
                stack.append((u, w))
                dfs(w, u)
                low[u] = min(low[u], low[w])
                if low[w] >= idx[u]:
                    blk = set()
                    while True:
                        e = stack.pop()
                        blk.update(e)
                        if e == (u, w):
                            break
                    if len(blk) >= 3:
                        out.append(blk)
            elif idx[w] < idx[u]:
                stack.append((u, w))
                low[u] = min(low[u], idx[w])
    for s in adj:
        if s not in idx:
            dfs(s, None)
    return out
