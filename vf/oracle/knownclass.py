"""Classification of written SMILES texts for one recorded writer defect (see known_findings.json, id *-ct-ring-closure)."""
import re

_DBL_CLOSURE = re.compile(r'=(?:[0-9]|%[0-9]{2})')


def ct_closure(text):
    """True if the text writes a double bond as a ring-closure bond ('=1') and carries direction marks around at least two
    double bonds -- the shape on which SMILES.__ct_map fixes both ends of the closure double bond independently."""
    t = text.split()[0]
    return bool(_DBL_CLOSURE.search(t)) and t.count('=') >= 2 and ('/' in t or '\\' in t)


TAG = ' [stereo double bond written as a ring-closure bond in a diene]'
