"""Independent writer/reader of the published pack layout ("Format V2 specification" docstring of MoleculeContainer.pack;
legacy V0 differs only in the bond-order block: 5 orders per 2 bytes '0 3 3 1 | 2 3 3'). Works on plain data, built as a bit string."""
import numpy as np


class Bits:
    def __init__(self):
        self.b = []

    def put(self, value, width):
        assert 0 <= value < (1 << width), (value, width)
        self.b.append(format(value, '0%db' % width))

    def pad_to_byte(self):
        n = sum(len(x) for x in self.b) % 8
        if n:
            self.b.append('0' * (8 - n))

    def bytes(self):
        s = ''.join(self.b)
        assert len(s) % 8 == 0
        return bytes(int(s[i:i + 8], 2) for i in range(0, len(s), 8))


def half_bits_trunc(x):
    """IEEE half bits of x with truncation toward zero of the mantissa (what a minimal encoder does); 0 outside the range"""
    if x == 0 or x != x:
        return 0
    sign = 1 if x < 0 else 0
    x = abs(x)
    import math
    m, e = math.frexp(x)   # x = m * 2**e, 0.5 <= m < 1
    e -= 1                 # x = (2m) * 2**e, 1 <= 2m < 2
    if e >= 16 or e < -25:
        return 0
    if e < -14:            # subnormal
        frac = int(math.ldexp(2 * m, 14 + e) * 1024)
        ebits = 0
    else:
        frac = int((2 * m - 1.0) * 1024)
        ebits = e + 15
    return (sign << 15) | (ebits << 10) | frac


def half_value(bits):
    return float(np.frombuffer(int(bits).to_bytes(2, 'little'), dtype=np.float16)[0])


def encode(mol, version=2):
    """mol: dict(atoms=[dict(n, z, isotope_code(0..31), stereo('', 'tT','tF','aT','aF'), x, y, h(0..6|None), charge, radical, nbrs=[numbers])],
    orders=[order per bond in first-seen order], cis_trans=[(n, m, bool)])"""
    w = Bits()
    w.put(version, 8)
    w.put(len(mol['atoms']), 12)
    w.put(len(mol['cis_trans']), 12)
    for a in mol['atoms']:
        w.put(a['n'], 12)
        w.put(len(a['nbrs']), 4)
        st = {'': (0, 0), 'tF': (0b10, 0), 'tT': (0b11, 0), 'aF': (0, 0b10), 'aT': (0, 0b11)}[a['stereo']]
        w.put(st[0], 2)
        w.put(st[1], 2)
        w.put(a['isotope_code'], 5)
        w.put(a['z'], 7)
        w.put(half_bits_trunc(a['x']), 16)
        w.put(half_bits_trunc(a['y']), 16)
        w.put(7 if a['h'] is None else a['h'], 3)
        w.put(a['charge'] + 4, 4)
        w.put(1 if a['radical'] else 0, 1)
    flat = [m for a in mol['atoms'] for m in a['nbrs']]
    assert len(flat) % 2 == 0
    for m in flat:
        w.put(m, 12)
    if version == 2:
        for o in mol['orders']:
            w.put(o - 1, 3)
        w.pad_to_byte()
    else:
        os_ = list(mol['orders'])
        while len(os_) % 5:
            os_.append(1)      # padding orders decode as garbage that is never consumed
        for i in range(0, len(os_), 5):
            w.put(0, 1)
            for o in os_[i:i + 5]:
                w.put(o - 1, 3)
    for n, m, s in mol['cis_trans']:
        w.put(n, 12)
        w.put(m, 12)
        w.put(0, 7)
        w.put(1 if s else 0, 1)
    return w.bytes()


def plain_from_chython(m, common_isotopes):
    """plain description of a chython molecule in pack terms (reads raw slots only; no pack code involved)"""
    atoms = []
    seen = set()
    orders = []
    ct = []
    terminals = m._stereo_cis_trans_terminals
    for n, a in m._atoms.items():
        nb = m._bonds[n]
        st = ''
        if a._stereo is not None:
            st = ('a' if len(nb) == 2 else 't') + ('T' if a._stereo else 'F')
        iso = 0 if a._isotope is None else a._isotope - common_isotopes[a.atomic_number]
        atoms.append({'n': n, 'z': a.atomic_number, 'isotope_code': iso, 'stereo': st, 'x': a.x, 'y': a.y, 'h': a._implicit_hydrogens,
                      'charge': a._charge, 'radical': a._is_radical, 'nbrs': list(nb)})
        seen.add(n)
        for k, b in nb.items():
            if k not in seen:
                orders.append(b._order)
                if b._stereo is not None:
                    tn, tm = terminals[n]
                    ct.append((tn, tm, b._stereo))
    return {'atoms': atoms, 'orders': orders, 'cis_trans': ct}


def raw_state(m):
    """round-trip comparison key: numbers and dict order, raw attributes, neighbour order, orders, stereo, half-precision coordinates"""
    atoms = tuple((n, a.atomic_number, a._isotope, a._charge, a._is_radical, a._implicit_hydrogens, a._stereo,
                   half_bits_trunc(a.x), half_bits_trunc(a.y)) for n, a in m._atoms.items())
    bonds = tuple((n, tuple((k, b._order) for k, b in ms.items())) for n, ms in m._bonds.items())
    ct = tuple(sorted((min(n, k), max(n, k), b._stereo) for n, ms in m._bonds.items() for k, b in ms.items() if b._stereo is not None and n < k))
    return atoms, bonds, ct
