"""Brute-force labelled-graph tools: canonical code, automorphism orbits, embedding enumeration. No chython imports."""
import itertools


def canon_code(n, edges, vlabel=None, elabel=None):
    """canonical code of a graph on vertices 0..n-1. vlabel: list of hashable vertex labels, elabel: dict frozenset->label.
    Brute force over permutations that respect the (label, degree, sorted neighbour-degree) partition."""
    vlabel = vlabel or [0] * n
    adj = [set() for _ in range(n)]
    for a, b in edges:
        adj[a].add(b)
        adj[b].add(a)
    el = elabel or {}
    inv = []
    for v in range(n):
        inv.append((repr(vlabel[v]), len(adj[v]), tuple(sorted((len(adj[u]), repr(vlabel[u]), repr(el.get(frozenset((u, v)), 1))) for u in adj[v]))))
    classes = {}
    for v in range(n):
        classes.setdefault(inv[v], []).append(v)
    keys = sorted(classes)
    best = None
    elist = [(a, b, repr(el.get(frozenset((a, b)), 1))) for a, b in edges]
    for combo in itertools.product(*[itertools.permutations(classes[k]) for k in keys]):
        order = [v for grp in combo for v in grp]
        pos = {v: i for i, v in enumerate(order)}
        code = tuple(sorted((min(pos[a], pos[b]), max(pos[a], pos[b]), l) for a, b, l in elist))
        if best is None or code < best:
            best = code
    return (tuple(k for k in keys for _ in classes[k]), best)


def automorphisms(n, edges, vlabel=None, elabel=None):
    """all label-preserving automorphisms as tuples p with p[v] = image of v"""
    vlabel = vlabel or [0] * n
    el = elabel or {}
    adj = [dict() for _ in range(n)]
    for a, b in edges:
        l = el.get(frozenset((a, b)), 1)
        adj[a][b] = l
        adj[b][a] = l
    out = []

    def rec(v, img, used):
        if v == n:
            out.append(tuple(img))
            return
        for c in range(n):
            if c in used or vlabel[c] != vlabel[v] or len(adj[c]) != len(adj[v]):
                continue
            ok = True
            for u, l in adj[v].items():
                if u < v and adj[c].get(img[u]) != l:
                    ok = False
                    break
            if ok:
                # non-edges among earlier vertices must stay non-edges
                for u in range(v):
                    if u not in adj[v] and img[u] in adj[c]:
                        ok = False
                        break
            if ok:
                img.append(c)
                used.add(c)
                rec(v + 1, img, used)
                img.pop()
                used.discard(c)
    rec(0, [], set())
    return out


def orbits(n, edges, vlabel=None, elabel=None):
    auts = automorphisms(n, edges, vlabel, elabel)
    orb = list(range(n))
    for p in auts:
        for v in range(n):
            a, b = orb[v], orb[p[v]]
            if a != b:
                lo, hi = min(a, b), max(a, b)
                orb = [lo if x == hi else x for x in orb]
    return orb, auts


def embeddings(p_atoms, p_adj, t_atoms, t_adj, atom_ok, bond_ok, induced_components=None):
    """all injective maps pattern->target (dict) such that atom_ok(pa, ta) for every atom, bond_ok(pb, tb) for every pattern
    bond, and -- the closure rule of chython's matcher -- no target bond joins the images of two pattern atoms of the SAME
    pattern component that are not bonded in the pattern.
    p_adj / t_adj: dict n -> dict m -> bondobj. induced_components: dict pattern atom -> component id (None: one component)."""
    pn = list(p_atoms)
    # order pattern atoms so that each next atom is adjacent to an earlier one when possible (speed only)
    order = []
    seen = set()
    for s in pn:
        if s in seen:
            continue
        st = [s]
        seen.add(s)
        while st:
            x = st.pop(0)
            order.append(x)
            for y in p_adj[x]:
                if y not in seen:
                    seen.add(y)
                    st.append(y)
    comp = induced_components or {x: 0 for x in pn}
    out = []
    tn = list(t_atoms)

    def rec(i, mp, used):
        if i == len(order):
            out.append(dict(mp))
            return
        x = order[i]
        for c in tn:
            if c in used or not atom_ok(p_atoms[x], t_atoms[c]):
                continue
            ok = True
            for y, img in mp.items():
                pb = p_adj[x].get(y)
                tb = t_adj[c].get(img)
                if pb is not None:
                    if tb is None or not bond_ok(pb, tb):
                        ok = False
                        break
                elif tb is not None and comp[x] == comp[y]:
                    ok = False
                    break
            if ok:
                mp[x] = c
                used.add(c)
                rec(i + 1, mp, used)
                del mp[x]
                used.discard(c)
    rec(0, {}, set())
    return out
