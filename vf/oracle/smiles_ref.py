"""Independent recursive-descent reader for the SMILES sub-language C03 lists (OpenSMILES reading).

parse(text) -> Ref object or raises Reject. Nothing here imports chython.

Language: organic-subset atoms (B C N O P S F Cl Br I, aromatic b c n o p s), bracket atoms
[isotope? symbol chirality? hcount? charge? map?], bonds - = # : ~ / \\ (the library's '~' = any/coordinate bond, order 8),
branches, ring closures (digit 1-9, %10-%99; see RING0 below), dots, reaction arrows (exactly two '>'), and a CXSMILES block
|^1:i,j,...| (radicals) and |f:a.b,c.d| (fragment grouping) after one blank.
"""
import re

ELEMENTS = ('H He Li Be B C N O F Ne Na Mg Al Si P S Cl Ar K Ca Sc Ti V Cr Mn Fe Co Ni Cu Zn Ga Ge As Se Br Kr Rb Sr Y Zr Nb Mo Tc Ru Rh Pd Ag Cd '
            'In Sn Sb Te I Xe Cs Ba La Ce Pr Nd Pm Sm Eu Gd Tb Dy Ho Er Tm Yb Lu Hf Ta W Re Os Ir Pt Au Hg Tl Pb Bi Po At Rn Fr Ra Ac Th Pa U Np Pu '
            'Am Cm Bk Cf Es Fm Md No Lr Rf Db Sg Bh Hs Mt Ds Rg Cn Nh Fl Mc Lv Ts Og').split()
ESET = set(ELEMENTS)
AROM_BRACKET = {'c': 'C', 'n': 'N', 'o': 'O', 'p': 'P', 's': 'S', 'se': 'Se', 'as': 'As', 'b': 'B', 'te': 'Te'}
ORGANIC = ['Cl', 'Br', 'B', 'C', 'N', 'O', 'P', 'S', 'F', 'I']
AROM_ORGANIC = {'b': 'B', 'c': 'C', 'n': 'N', 'o': 'O', 'p': 'P', 's': 'S'}
BONDS = {'-': 1, '=': 2, '#': 3, ':': 4, '~': 8}
CHARGES = {'+': 1, '++': 2, '+++': 3, '++++': 4, '-': -1, '--': -2, '---': -3, '----': -4,
           '+1': 1, '+2': 2, '+3': 3, '+4': 4, '-1': -1, '-2': -2, '-3': -3, '-4': -4}
BRACKET = re.compile(r'^(?P<iso>[0-9]+)?(?P<sym>[A-Z][a-z]?|[a-z][a-z]?)(?P<chi>@{1,2})?(?P<h>H[0-9]?)?(?P<chg>[+-][+-]*[0-9]?)?(?P<map>:[0-9]+)?$')


class Reject(Exception):
    def __init__(self, why, feature=None):
        super().__init__(why)
        self.feature = feature


class Ref:
    def __init__(self):
        self.atoms = []      # dict(element, aromatic, isotope, charge, h (None for organic subset), map, chi, bracket)
        self.bonds = []      # (i, j, order)  order: 1 2 3 4 8
        self.dirs = {}       # (i, j) -> '/' or '\\' as written from i to j
        self.nbr_order = {}  # atom -> neighbour list in string order (for chirality), ring closures in digit-opening order
        self.radicals = set()


def parse_bracket(tok):
    m = BRACKET.match(tok)
    if not m:
        raise Reject('bracket atom syntax', 'bracket syntax')
    iso = m.group('iso')
    if iso is not None:
        if iso.startswith('0') or len(iso) > 3:
            raise Reject('isotope', 'isotope 0/leading zero/over 999')
        iso = int(iso)
    sym = m.group('sym')
    arom = False
    if sym in ESET:
        el = sym
    elif sym in AROM_BRACKET:
        el = AROM_BRACKET[sym]
        arom = True
    else:
        raise Reject('unknown element', 'unknown element')
    h = m.group('h')
    hc = 0 if h is None else (1 if h == 'H' else int(h[1:]))
    chg = m.group('chg')
    if chg is None:
        c = 0
    elif chg in CHARGES:
        c = CHARGES[chg]
    else:
        raise Reject('charge spelling', 'charge outside -4..+4 or malformed')
    mp = m.group('map')
    if mp is not None:
        if len(mp) > 5:
            raise Reject('map', 'map number over 4 digits')
        mp = int(mp[1:])
    else:
        mp = 0
    if el == 'H' and hc:
        pass
    return {'element': el, 'aromatic': arom, 'isotope': iso, 'charge': c, 'h': hc, 'map': mp, 'chi': m.group('chi'), 'bracket': True,
            'h_written': h, 'chg_written': chg}


def tokenize(s):
    toks = []
    i = 0
    n = len(s)
    while i < n:
        ch = s[i]
        if ch == '[':
            j = s.find(']', i)
            if j < 0:
                raise Reject('unclosed bracket', 'bracket syntax')
            if '[' in s[i + 1:j]:
                raise Reject('nested bracket', 'bracket syntax')
            toks.append(('atom', parse_bracket(s[i + 1:j])))
            i = j + 1
        elif s.startswith('Cl', i) or s.startswith('Br', i):
            toks.append(('atom', {'element': s[i:i + 2], 'aromatic': False, 'isotope': None, 'charge': 0, 'h': None, 'map': 0, 'chi': None, 'bracket': False}))
            i += 2
        elif ch in 'BCNOPSFI':
            toks.append(('atom', {'element': ch, 'aromatic': False, 'isotope': None, 'charge': 0, 'h': None, 'map': 0, 'chi': None, 'bracket': False}))
            i += 1
        elif ch in AROM_ORGANIC:
            toks.append(('atom', {'element': AROM_ORGANIC[ch], 'aromatic': True, 'isotope': None, 'charge': 0, 'h': None, 'map': 0, 'chi': None, 'bracket': False}))
            i += 1
        elif ch in BONDS:
            toks.append(('bond', BONDS[ch]))
            i += 1
        elif ch in '/\\':
            toks.append(('dir', ch))
            i += 1
        elif ch == '(':
            toks.append(('open', None))
            i += 1
        elif ch == ')':
            toks.append(('close', None))
            i += 1
        elif ch == '.':
            toks.append(('dot', None))
            i += 1
        elif ch.isdigit() and ch.isascii():
            toks.append(('ring', int(ch)))
            i += 1
        elif ch == '%':
            if i + 2 < n + 0 and s[i + 1:i + 3].isdigit() and s[i + 1:i + 3].isascii():
                v = int(s[i + 1:i + 3])
                if s[i + 1] == '0':
                    raise Reject('two-digit closure starting with 0', 'ring closure %0x')
                toks.append(('ring', v))
                i += 3
            else:
                raise Reject('% needs two digits', 'ring closure % without two digits')
        else:
            raise Reject('illegal character %r' % ch, 'illegal character')
    return toks


def parse_molecule(s, ref=None, offset=0):
    """parse one dot-connected SMILES (no '>' inside). returns Ref"""
    if not s:
        raise Reject('empty', 'empty')
    toks = tokenize(s)
    r = ref or Ref()
    base = len(r.atoms)
    prev = None          # index of previous atom
    pending = None       # pending bond token ('bond', order) / ('dir', ch)
    stack = []
    rings = {}           # number -> (atom, bond token, slot index)
    first = True
    after_open = False
    for kind, val in toks:
        if kind == 'atom':
            idx = len(r.atoms)
            r.atoms.append(val)
            r.nbr_order[idx] = []
            if prev is not None:
                if pending is None:
                    order = 4 if (val['aromatic'] and r.atoms[prev]['aromatic']) else 1
                    r.bonds.append((prev, idx, order))
                elif pending[0] == 'bond':
                    r.bonds.append((prev, idx, pending[1]))
                elif pending[0] == 'dir':
                    order = 4 if (val['aromatic'] and r.atoms[prev]['aromatic']) else 1
                    r.bonds.append((prev, idx, order))
                    r.dirs[(prev, idx)] = pending[1]
                elif pending[0] == 'dot':
                    pass
                if pending is None or pending[0] != 'dot':
                    r.nbr_order[prev].append(idx)
                    r.nbr_order[idx].append(prev)
            elif pending is not None:
                raise Reject('bond before first atom', 'starts with a bond')
            pending = None
            prev = idx
            after_open = False
        elif kind in ('bond', 'dir'):
            if prev is None:
                raise Reject('bond before first atom', 'starts with a bond')
            if pending is not None:
                raise Reject('two bond symbols', 'two bonds in a row')
            pending = (kind, val)
            after_open = False
        elif kind == 'dot':
            if prev is None or pending is not None:
                raise Reject('dot position', 'dot position')
            pending = ('dot', None)
            after_open = False
        elif kind == 'open':
            if prev is None or pending is not None or after_open:
                raise Reject('branch position', 'branch position')
            stack.append(prev)
            after_open = True
        elif kind == 'close':
            if not stack or pending is not None or after_open:
                raise Reject('branch close', 'branch close')
            prev = stack.pop()
            after_open = False
        elif kind == 'ring':
            if prev is None or after_open:
                raise Reject('ring closure position', 'ring closure position')
            if pending is not None and pending[0] == 'dot':
                raise Reject('dot before ring closure', 'dot before ring closure')
            if val == 0:
                raise Reject('ring closure 0', 'ring closure number 0')
            if val in rings:
                a, tok, slot = rings.pop(val)
                if a == prev:
                    raise Reject('ring closure to the same atom', 'ring closure on itself')
                if any((x == a and y == prev) or (x == prev and y == a) for x, y, _ in r.bonds):
                    raise Reject('ring closure duplicates a bond', 'ring closure duplicates a bond')
                o1 = tok[1] if tok and tok[0] == 'bond' else None
                o2 = pending[1] if pending and pending[0] == 'bond' else None
                d1 = tok[1] if tok and tok[0] == 'dir' else None
                d2 = pending[1] if pending and pending[0] == 'dir' else None
                if o1 is not None and o2 is not None and o1 != o2:
                    raise Reject('ring closure bond mismatch', 'ring closure bond mismatch')
                if (o1 is not None and o1 != 1 and d2) or (o2 is not None and o2 != 1 and d1):
                    raise Reject('ring closure bond mismatch', 'ring closure bond mismatch')
                order = o1 if o1 is not None else o2
                if order is None:
                    order = 4 if (r.atoms[a]['aromatic'] and r.atoms[prev]['aromatic']) and not (d1 or d2) else 1
                    if (d1 or d2):
                        order = 1 if not (r.atoms[a]['aromatic'] and r.atoms[prev]['aromatic']) else 4
                r.bonds.append((a, prev, order))
                if d1:
                    r.dirs[(a, prev)] = d1
                if d2:
                    r.dirs[(prev, a)] = d2
                r.nbr_order[a][slot] = prev
                r.nbr_order[prev].append(a)
            else:
                r.nbr_order[prev].append(None)
                rings[val] = (prev, pending, len(r.nbr_order[prev]) - 1)
            pending = None
            after_open = False
    if stack:
        raise Reject('unclosed branch', 'unclosed branch')
    if rings:
        raise Reject('unclosed ring', 'unclosed ring')
    if pending is not None:
        raise Reject('dangling bond or dot', 'ends with a bond or dot')
    if after_open:
        raise Reject('unclosed branch', 'unclosed branch')
    if len(r.atoms) == base:
        raise Reject('no atoms', 'no atoms')
    return r


CX_BLOCK = re.compile(r'^\|(.*)\|$')
CX_RAD = re.compile(r'\^([1-7]):([0-9]+(?:,[0-9]+)*)')
CX_FRAG = re.compile(r'f:((?:[0-9]+(?:\.[0-9]+)+)(?:,(?:[0-9]+(?:\.[0-9]+)+))*)')


def parse(text):
    """returns ('mol', Ref, cx) or ('rxn', [Ref or None]*3 flattened..., cx). cx = dict(radicals=set, fragments=list)"""
    if not isinstance(text, str) or not text:
        raise Reject('empty', 'empty')
    parts = text.split()
    if not parts:
        raise Reject('empty', 'empty')
    smi = parts[0]
    cx = {'radicals': [], 'fragments': []}
    if len(parts) > 1:
        m = CX_BLOCK.match(parts[1])
        if m:
            for rm in CX_RAD.finditer(m.group(1)):
                cx['radicals'] += [int(x) for x in rm.group(2).split(',')]
            fm = CX_FRAG.search(m.group(1))
            if fm:
                cx['fragments'] = [[int(y) for y in x.split('.')] for x in fm.group(1).split(',')]
    if '>' in smi:
        roles = smi.split('>')
        if len(roles) != 3:
            raise Reject('reaction needs exactly two >', 'reaction arrow count')
        out = []
        total = 0
        for role in roles:
            mols = []
            if role:
                for piece in role.split('.'):
                    if not piece:
                        raise Reject('empty molecule in a role', 'double dot in reaction')
                    mols.append(parse_molecule(piece))
            out.append(mols)
        if not any(out):
            raise Reject('empty reaction', 'empty reaction')
        natoms = sum(len(m.atoms) for ms in out for m in ms)
        for x in cx['radicals']:
            if x >= natoms:
                raise Reject('radical index out of range', 'cx radical index out of range')
        return 'rxn', out, cx
    r = parse_molecule(smi)
    for x in cx['radicals']:
        if x >= len(r.atoms):
            raise Reject('radical index out of range', 'cx radical index out of range')
    return 'mol', r, cx
