"""Independent valence models for C04.

(a) rederive(): re-derivation of the implicit-hydrogen rule from an element's raw tables (_common_valences,
    _valences_exceptions) following the docstring in element.py -- never touches _compiled_valence_rules / valence_rules.
(b) TEXTBOOK: a hand-written table for the organic subset.
"""

Z = {'H': 1, 'B': 5, 'C': 6, 'N': 7, 'O': 8, 'F': 9, 'Si': 14, 'P': 15, 'S': 16, 'Cl': 17, 'As': 33, 'Se': 34, 'Br': 35, 'I': 53}


def rederive(element, charge, radical, neighbours, symbol_to_z):
    """element: chython Element instance (only its two raw tables and atomic_number are read).
    neighbours: list of (order, atomic_number) over non-coordinate bonds. Returns H count or None (no valence state)."""
    if element.atomic_number == 1:
        return 0
    total = sum(o for o, _ in neighbours)
    have = {}
    for k in neighbours:
        have[k] = have.get(k, 0) + 1
    common = element._common_valences
    if charge == 0 and not radical:
        if common[0] and element.atomic_number != 1:
            v0 = common[0]
            if 0 <= v0 - total <= v0:
                return v0 - total
            for v in common[1:]:
                if total == v:
                    return 0
        else:
            for v in common:
                if total == v:
                    return 0
    for c, r, implicit, env in element._valences_exceptions:
        if c != charge or r != radical:
            continue
        need = {}
        explicit = 0
        for b, sym in env:
            key = (b, symbol_to_z[sym])
            need[key] = need.get(key, 0) + 1
            explicit += b
        h = explicit + implicit - total
        if implicit:
            if not 0 <= h <= implicit:
                continue
        elif h != 0:
            continue
        if all(have.get(k, 0) >= n for k, n in need.items()):
            return h
    return None

def admissible_h(element, charge, radical, neighbours, symbol_to_z):
    """every implicit-hydrogen count for which the raw tables hold a state matching the environment (rederive() returns the first one)."""
    if element.atomic_number == 1:
        return {0}
    total = sum(o for o, _ in neighbours)
    have = {}
    for k in neighbours:
        have[k] = have.get(k, 0) + 1
    out = set()
    common = element._common_valences
    if charge == 0 and not radical:
        if common[0]:
            v0 = common[0]
            if 0 <= v0 - total <= v0:
                out.add(v0 - total)
            for v in common[1:]:
                if total == v:
                    out.add(0)
        else:
            for v in common:
                if total == v:
                    out.add(0)
    for c, r, implicit, env in element._valences_exceptions:
        if c != charge or r != radical:
            continue
        need = {}
        explicit = 0
        for b, sym in env:
            key = (b, symbol_to_z[sym])
            need[key] = need.get(key, 0) + 1
            explicit += b
        h = explicit + implicit - total
        if implicit:
            if not 0 <= h <= implicit:
                continue
        elif h != 0:
            continue
        if all(have.get(k, 0) >= n for k, n in need.items()):
            out.add(h)
    return out


# (c) ladder model: main-group valence ladders by effective group (group number minus charge: isoelectronic shift), second period without expansion.
LADDER_GROUP = {'B': 13, 'C': 14, 'N': 15, 'O': 16, 'F': 17, 'Si': 14, 'P': 15, 'S': 16, 'Cl': 17, 'Ge': 14, 'As': 15, 'Se': 16, 'Br': 17, 'Te': 16, 'I': 17}
LADDER_PERIOD2 = {'B', 'C', 'N', 'O', 'F'}
# states the ladder does not describe, reviewed by hand: the elemental state (valence 0) of B C Si Ge P S Se Te,
# hypophosphorous acid H3PO2 = HO-P(=O)H2 (phosphorus(V) although the bond sum 3 would already be a phosphorus(III) state), As valence 0 in _common_valences
LADDER_REVIEWED = {('B', 0, 0, 0), ('C', 0, 0, 0), ('Si', 0, 0, 0), ('Ge', 0, 0, 0), ('P', 0, 0, 0), ('S', 0, 0, 0), ('Se', 0, 0, 0), ('Te', 0, 0, 0), ('As', 0, 0, 0)}


def ladder(symbol, charge):
    g = LADDER_GROUP.get(symbol)
    if g is None:
        return None
    g -= charge
    if not 13 <= g <= 18:
        return None
    base = {13: 3, 14: 4, 15: 3, 16: 2, 17: 1, 18: 0}[g]
    top = {13: 3, 14: 4, 15: 5, 16: 6, 17: 7, 18: 8}[g]
    if symbol in LADDER_PERIOD2:
        return [base]
    return list(range(base, top + 1, 2))


def ladder_judge(symbol, charge, radical, neighbours, h):
    """None = not judged; True/False = the state (bond sum + h) is / is not the lowest ladder state reachable by adding hydrogens.
    neighbours: (order, symbol-or-number) pairs; only judged when the library reports a state at all."""
    if h is None:
        return None
    lad = ladder(symbol, charge)
    if lad is None:
        return None
    if radical:   # the unpaired electron takes one valence
        lad = [v - 1 for v in lad if v >= 1]
    total = sum(o for o, _ in neighbours)
    if (symbol, charge, total, h) in LADDER_REVIEWED:
        return None
    if symbol == 'P' and charge == 0 and h == 2 and sorted(o for o, _ in neighbours) == [1, 2]:
        return None     # hypophosphorous acid / phosphinic acids R-P(=O)H2: reviewed
    ok = [v for v in lad if v >= total]
    if not ok:
        return False
    return h == ok[0] - total


# (b) hand-written: symbol -> (first valence giving implicit H, higher valences that are allowed without H)
TEXTBOOK_NEUTRAL = {
    'B': (3, ()), 'C': (4, ()), 'N': (3, (5,)), 'O': (2, ()), 'F': (1, ()), 'Si': (4, ()), 'P': (3, (5,)), 'S': (2, (4, 6)),
    'Cl': (1, (3, 5, 7)), 'Br': (1, (3, 5, 7)), 'I': (1, (3, 5, 7)),
}
# charged closed-shell states everybody agrees on: (symbol, charge) -> valence with implicit H filling
TEXTBOOK_CHARGED = {('N', 1): 4, ('O', 1): 3, ('O', -1): 1, ('N', -1): 2, ('C', -1): 3, ('B', -1): 4, ('S', -1): 1, ('P', 1): 4,
                    ('F', -1): 0, ('Cl', -1): 0, ('Br', -1): 0, ('I', -1): 0}


def textbook(symbol, charge, radical, neighbours):
    """returns ('H', n) inside the textbook domain, ('?', None) outside of it. Only the uncontroversial part:
    bond sum <= first valence (neutral), or the listed charged states with bond sum <= valence; radicals: carbon only."""
    total = sum(o for o, _ in neighbours)
    if radical:
        if symbol == 'C' and charge == 0 and total <= 3:
            return 'H', 3 - total
        return '?', None
    if charge == 0:
        if symbol not in TEXTBOOK_NEUTRAL:
            return '?', None
        v0, hi = TEXTBOOK_NEUTRAL[symbol]
        if total <= v0:
            return 'H', v0 - total
        return '?', None
    v = TEXTBOOK_CHARGED.get((symbol, charge))
    if v is None or total > v:
        return '?', None
    return 'H', v - total
