"""Independent valence models for C04.

(a) rederive(): re-derivation of the implicit-hydrogen rule from an element's raw tables (_common_valences,
    _valences_exceptions) following the docstring in element.py -- never touches _compiled_valence_rules / valence_rules.
(b) TEXTBOOK: a hand-written table for the organic subset.
"""

Z = {'H': 1, 'B': 5, 'C': 6, 'N': 7, 'O': 8, 'F': 9, 'Si': 14, 'P': 15, 'S': 16, 'Cl': 17, 'As': 33, 'Se': 34, 'Br': 35, 'I': 53}


def rederive(element, charge, radical, neighbours, symbol_to_z):
    """element: chython Element instance (only its two raw tables and atomic_number are read).
    neighbours: list of (order, atomic_number) over non-coordinate bonds. Returns H count or None (no valence state)."""
    if element.atomic_number == 1:
        return 0
    total = sum(o for o, _ in neighbours)
    have = {}
    for k in neighbours:
        have[k] = have.get(k, 0) + 1
    common = element._common_valences
    if charge == 0 and not radical:
        if common[0] and element.atomic_number != 1:
            v0 = common[0]
            if 0 <= v0 - total <= v0:
                return v0 - total
            for v in common[1:]:
                if total == v:
                    return 0
        else:
            for v in common:
                if total == v:
                    return 0
    for c, r, implicit, env in element._valences_exceptions:
        if c != charge or r != radical:
            continue
        need = {}
        explicit = 0
        for b, sym in env:
            key = (b, symbol_to_z[sym])
            need[key] = need.get(key, 0) + 1
            explicit += b
        h = explicit + implicit - total
        if implicit:
            if not 0 <= h <= implicit:
                continue
        elif h != 0:
            continue
        if all(have.get(k, 0) >= n for k, n in need.items()):
            return h
    return None


# (b) hand-written: symbol -> (first valence giving implicit H, higher valences that are allowed without H)
TEXTBOOK_NEUTRAL = {
    'B': (3, ()), 'C': (4, ()), 'N': (3, (5,)), 'O': (2, ()), 'F': (1, ()), 'Si': (4, ()), 'P': (3, (5,)), 'S': (2, (4, 6)),
    'Cl': (1, (3, 5, 7)), 'Br': (1, (3, 5, 7)), 'I': (1, (3, 5, 7)),
}
# charged closed-shell states everybody agrees on: (symbol, charge) -> valence with implicit H filling
TEXTBOOK_CHARGED = {('N', 1): 4, ('O', 1): 3, ('O', -1): 1, ('N', -1): 2, ('C', -1): 3, ('B', -1): 4, ('S', -1): 1, ('P', 1): 4,
                    ('F', -1): 0, ('Cl', -1): 0, ('Br', -1): 0, ('I', -1): 0}


def textbook(symbol, charge, radical, neighbours):
    """returns ('H', n) inside the textbook domain, ('?', None) outside of it. Only the uncontroversial part:
    bond sum <= first valence (neutral), or the listed charged states with bond sum <= valence; radicals: carbon only."""
    total = sum(o for o, _ in neighbours)
    if radical:
        if symbol == 'C' and charge == 0 and total <= 3:
            return 'H', 3 - total
        return '?', None
    if charge == 0:
        if symbol not in TEXTBOOK_NEUTRAL:
            return '?', None
        v0, hi = TEXTBOOK_NEUTRAL[symbol]
        if total <= v0:
            return 'H', v0 - total
        return '?', None
    v = TEXTBOOK_CHARGED.get((symbol, charge))
    if v is None or total > v:
        return '?', None
    return 'H', v - total
