"""Sharded exhaustive runner, accumulators, evidence writer, known-findings handling.

A property module (vf/props/cXX.py) exposes
    plan(tier, seed) -> list[Stage]      what is enumerated, split in shards
    replay(rec)      -> list[dict]       re-run ONE recorded case outside the explorer
    META             -> dict(rule=..., assumptions=[...], technique=...)
A Stage's func(shard) runs in a worker process and returns an Acc.
"""
import collections
import hashlib
import json
import multiprocessing as mp
import os
import re
import sys
import time
import traceback

from . import boot

VERIF = boot.VERIF
NPROC = int(os.environ.get('VERIF_NPROC', '0')) or min(16, os.cpu_count() or 1)


class Acc:
    """Mergeable per-shard accumulator."""
    MAXS = 6
    MAXF = 40

    def __init__(self):
        self.states = 0            # distinct cases / states visited
        self.transitions = 0       # implementation calls / edges followed
        self.traces = 0            # model traces validated against the implementation
        self.outcomes = collections.Counter()   # observed outcome classes
        self.ood = collections.Counter()        # out-of-domain cases per exclusion predicate
        self.info = collections.Counter()       # free counters (scope self checks etc.)
        self.samples = []
        self.fails = []
        self.nfails = 0
        self.caps = []

    def sample(self, obj, force=False):
        if force or len(self.samples) < self.MAXS:
            self.samples.append(obj)

    def fail(self, key, **detail):
        """key: short stable identification of WHAT fails (matched against known findings)."""
        self.nfails += 1
        for f in self.fails:
            if f['key'] == key:
                f['count'] = f.get('count', 1) + 1
                return
        if len(self.fails) < self.MAXF:
            d = {'key': key}
            d.update(detail)
            self.fails.append(d)

    def merge(self, o):
        self.states += o.states
        self.transitions += o.transitions
        self.traces += o.traces
        self.outcomes.update(o.outcomes)
        self.ood.update(o.ood)
        self.info.update(o.info)
        for s in o.samples:
            if len(self.samples) < self.MAXS:
                self.samples.append(s)
        have = {f['key']: f for f in self.fails}
        for f in o.fails:
            if f['key'] in have:
                have[f['key']]['count'] = have[f['key']].get('count', 1) + f.get('count', 1)
            elif len(self.fails) < 10 * self.MAXF:
                self.fails.append(f)
                have[f['key']] = f
        self.nfails += o.nfails
        self.caps.extend(o.caps)
        return self


Stage = collections.namedtuple('Stage', 'name func shards bound')


def _run_task(task):
    si, func, shard = task
    t = time.time()
    try:
        acc = func(shard)
    except Exception:
        acc = Acc()
        acc.fail('HARNESS-EXCEPTION', stage=si, shard=repr(shard)[:200], traceback=traceback.format_exc()[-3000:])
        acc.info['harness_exceptions'] += 1
    return si, acc, time.time() - t


def _rotate(seq, seed):
    seq = list(seq)
    if not seq:
        return seq
    k = seed % len(seq)
    return seq[k:] + seq[:k]


def run_stages(stages, seed, tier='quick'):
    """static stages: func(shard) per shard in a worker. driver stages (shards is None): func(pmap, tier, seed) runs in the
    parent and farms work out through pmap(f, items) -- used by the level-synchronised BFS explorers."""
    tasks = []
    for si, st in enumerate(stages):
        if st.shards is None:
            continue
        for sh in _rotate(st.shards, seed):
            tasks.append((si, st.func, sh))
    per = [Acc() for _ in stages]
    walls = [0.0] * len(stages)
    if NPROC == 1:
        for t in tasks:
            si, acc, w = _run_task(t)
            per[si].merge(acc)
            walls[si] += w
        for si, st in enumerate(stages):
            if st.shards is None:
                t = time.time()
                per[si].merge(st.func(lambda f, items: map(f, items), tier, seed))
                walls[si] += time.time() - t
        return per, walls
    ctx = mp.get_context('fork')
    with ctx.Pool(NPROC) as pool:
        for si, acc, w in pool.imap_unordered(_run_task, tasks, chunksize=1):
            per[si].merge(acc)
            walls[si] += w
        for si, st in enumerate(stages):
            if st.shards is None:
                t = time.time()
                try:
                    per[si].merge(st.func(lambda f, items: pool.imap_unordered(f, items, chunksize=1), tier, seed))
                except Exception:
                    per[si].fail('HARNESS-EXCEPTION', stage=si, traceback=traceback.format_exc()[-3000:])
                walls[si] += time.time() - t
    return per, walls


# ------------------------------------------------------------------ known findings

def load_findings():
    p = os.path.join(VERIF, 'known_findings.json')
    if not os.path.exists(p):
        return {'open': [], 'fixed': []}
    with open(p) as f:
        return json.load(f)


def match_finding(findings, pid, key):
    for e in findings.get('open', []):
        if e['property'] == pid and re.fullmatch(e['match'], key):
            return e
    return None


# ------------------------------------------------------------------ main driver

def _jsonable(o):
    if isinstance(o, (str, int, float, bool)) or o is None:
        return o
    if isinstance(o, bytes):
        return {'hex': o.hex()}
    if isinstance(o, dict):
        return {str(k): _jsonable(v) for k, v in o.items()}
    if isinstance(o, (list, tuple, set, frozenset)):
        return [_jsonable(x) for x in (sorted(o, key=repr) if isinstance(o, (set, frozenset)) else o)]
    return repr(o)


def main(pid, mod, tier, seed, replay_path=None):
    t0 = time.time()
    boot.boot()
    if replay_path:
        with open(replay_path) as f:
            rec = json.load(f)
        fails = mod.replay(rec)
        if fails:
            for f in fails:
                print('REPLAY-FAIL', json.dumps(_jsonable(f))[:2000])
            print('VIOLATION property=%s replay=%s' % (pid, replay_path))
            return 1
        print('replay passes: property=%s %s' % (pid, replay_path))
        return 0

    stages = mod.plan(tier, seed)
    per, walls = run_stages(stages, seed, tier)
    total = Acc()
    stage_rep = []
    for st, acc, w in zip(stages, per, walls):
        total.merge(acc)
        stage_rep.append({'stage': st.name, 'bound': st.bound, 'states': acc.states, 'transitions': acc.transitions,
                          'distinct_outcomes': len(acc.outcomes), 'fails': acc.nfails, 'cpu_s': round(w, 1),
                          'caps': acc.caps, 'out_of_domain': dict(acc.ood)})
        print('stage %-28s states=%d transitions=%d distinct_outcomes=%d fails=%d caps=%d cpu=%.1fs  [%s]' % (
            st.name, acc.states, acc.transitions, len(acc.outcomes), acc.nfails, len(acc.caps), w, st.bound), flush=True)

    findings = load_findings()
    known_hit = collections.OrderedDict()
    new = []
    harness_err = []
    for f in total.fails:
        if f['key'] == 'HARNESS-EXCEPTION':
            harness_err.append(f)
            continue
        e = match_finding(findings, pid, f['key'])
        if e is not None:
            known_hit.setdefault(e['id'], (e, f))
        else:
            new.append(f)
    for e, f in known_hit.values():
        print('KNOWN-FINDING: property=%s %s [%s]' % (pid, e['what'], e['id']))

    rc = 0
    viol_paths = []
    if harness_err:
        for f in harness_err[:3]:
            print('HARNESS-ERROR', f.get('traceback', '')[-1500:], file=sys.stderr)
        # an exception escaping a property function is a defect of the harness OR of chython; it is
        # reported as a violation with the traceback so that it is never silently swallowed
        new = harness_err[:1] + new
    seenkeys = set()
    t_confirm = time.time()
    for f in new:
        if f['key'] in seenkeys:
            continue
        seenkeys.add(f['key'])
        if len(seenkeys) > 12:
            break
        rec = _jsonable(dict(f, property=pid, repo=boot.repo_head()))
        h = hashlib.sha1(json.dumps(rec, sort_keys=True).encode()).hexdigest()[:12]
        d = os.path.join(VERIF, '.run', 'replays', pid) if os.environ.get('VERIF_NOEVIDENCE') else os.path.join(VERIF, 'replays', pid)
        os.makedirs(d, exist_ok=True)
        path = os.path.join(d, h + '.json')
        with open(path, 'w') as fh:
            json.dump(rec, fh, indent=1, sort_keys=True)
        confirmed = None
        # re-execution outside the explorer; the first violations are always re-executed, later ones only while the budget (5 min) lasts
        if f['key'] != 'HARNESS-EXCEPTION' and (len(viol_paths) < 2 or time.time() - t_confirm < 300):
            try:
                confirmed = bool(mod.replay(rec))
            except Exception:
                confirmed = None
        print('violation key=%s confirmed_by_replay=%s' % (f['key'], confirmed))
        print('VIOLATION property=%s replay=%s' % (pid, path))
        viol_paths.append(path)
        rc = 1

    meta = getattr(mod, 'META', {})
    capped = [c for a in per for c in a.caps]
    cov = {
        'states': total.states,
        'transitions': total.transitions,
        'traces_validated_against_impl': total.traces,
        'samples': _jsonable(total.samples) or ['(none)'],
        'exhaustive': not capped,
        'evaluations': total.transitions,
        'distinct_nontrivial': total.states,
        'rule': meta.get('rule', ''),
        'distinct_outcomes': len(total.outcomes),
        'outcome_histogram': {str(k): v for k, v in total.outcomes.most_common(40)},
        'out_of_domain': dict(total.ood),
        'info': dict(total.info),
        'stages': stage_rep,
        'caps_hit': capped,
        'known_findings_reported': sorted(known_hit),
        'failing_cases_total': total.nfails,
        'repo': boot.repo_head(),
        'technique': meta.get('technique', ''),
    }
    ev = {
        'property_id': pid, 'tier': tier, 'seed': seed, 'level': 'model_checking', 'coverage': cov,
        'assumptions': meta.get('assumptions', []) + [
            'CachedMethods 0.2.0 class_cached_property is replaced by a slotted-tolerant version (harness shim, DESIGN.md s1)',
            'checks run chython from the working tree of ' + boot.REPO],
        'wall_s': round(time.time() - t0, 2),
        'violations': len(viol_paths),
    }
    if not os.environ.get('VERIF_NOEVIDENCE'):
        write_evidence(pid, ev)
    print('property=%s tier=%s states=%d transitions=%d traces=%d distinct_outcomes=%d exhaustive=%s violations=%d wall=%.1fs' % (
        pid, tier, total.states, total.transitions, total.traces, len(total.outcomes), not capped, len(viol_paths), time.time() - t0))
    return rc


def write_evidence(pid, ev):
    d = os.path.join(VERIF, 'evidence')
    os.makedirs(d, exist_ok=True)
    try:
        import jsonschema
        with open(os.path.join(VERIF, 'schemas', 'EVIDENCE.schema.json')) as f:
            schema = json.load(f)
        try:
            jsonschema.validate(ev, schema)
        except jsonschema.ValidationError as e:
            print('EVIDENCE-SCHEMA-WARNING: %s' % e.message, file=sys.stderr)
    except ImportError:
        pass
    except FileNotFoundError:
        pass
    tmp = os.path.join(d, pid + '.json.tmp')
    with open(tmp, 'w') as f:
        json.dump(ev, f, indent=1)
    os.replace(tmp, os.path.join(d, pid + '.json'))
