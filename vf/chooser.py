"""Choice-point explorer for the random-order SMILES writer (stateless, deviation-bounded, CHESS style).

format(mol, 'r...') hands a weight function w(_) = random() to min(atoms_set, key=w) (start atom of each component) and to
sorted(neighbours, key=w) (branch order). The names `min` and `sorted` are rebound inside the module chython.algorithms.smiles
(from outside; nothing in /repo changes): when the key is that weight function the call becomes a CHOICE POINT whose answer is
taken from a script -- index of the chosen element / index of the chosen permutation of the canonically (ascending) ordered
candidates. Default answer 0 = ascending atom numbers. explore() enumerates every script whose number of non-default answers
is within the bound (None = unbounded = every traversal the writer can produce)."""
import builtins
import itertools

_state = {'armed': False, 'script': None, 'pos': 0, 'points': None}


class Divergence(RuntimeError):
    pass


def _is_weight(key):
    return key is not None and getattr(key, '__name__', '') == 'w'


def _choose(arity):
    st = _state
    i = st['pos']
    if i < len(st['script']):
        c = st['script'][i]
        if not 0 <= c < arity:
            raise Divergence('scripted answer %d out of range %d at choice point %d' % (c, arity, i))
    else:
        c = 0
    st['points'].append((arity, c))
    st['pos'] += 1
    return c


def _perm(items, index):
    """index-th permutation (lexicographic) of ascending items"""
    items = sorted(items)
    out = []
    k = len(items)
    f = 1
    for i in range(2, k):
        f *= i
    # factorial number system
    idx = index
    pool = list(items)
    for i in range(k, 0, -1):
        f = 1
        for j in range(2, i):
            f *= j
        q, idx = divmod(idx, f)
        out.append(pool.pop(q))
    return out


def _fact(k):
    f = 1
    for i in range(2, k + 1):
        f *= i
    return f


def my_sorted(iterable, *, key=None, reverse=False):
    if _state['armed'] and _is_weight(key):
        items = list(iterable)
        if len(items) <= 1:
            return items
        return _perm(items, _choose(_fact(len(items))))
    return builtins.sorted(iterable, key=key, reverse=reverse)


def my_min(*args, key=None, **kw):
    if _state['armed'] and _is_weight(key) and len(args) == 1:
        items = sorted(args[0])
        if len(items) <= 1:
            return items[0]
        return items[_choose(len(items))]
    if key is None:
        return builtins.min(*args, **kw)
    return builtins.min(*args, key=key, **kw)


def install():
    import chython.algorithms.smiles as sm
    sm.sorted = my_sorted
    sm.min = my_min


def run(mol, spec, script):
    """one execution of format(mol, spec) (spec must contain 'r') under a script. returns (text, order, points)"""
    install()
    _state.update(armed=True, script=list(script), pos=0, points=[])
    try:
        text, order = mol.__format__(spec, _return_order=True)
    finally:
        _state['armed'] = False
    if _state['pos'] < len(script):
        raise Divergence('script longer than the execution: %r' % (script,))
    return text, list(order), list(_state['points'])


def run_full(mol, spec, script):
    """the user-visible text (with the CXSMILES block) of the same execution: replayed under the recorded script"""
    install()
    _state.update(armed=True, script=list(script), pos=0, points=[])
    try:
        return mol.__format__(spec)
    finally:
        _state['armed'] = False


def explore(mol, spec='r', bound=None, limit=None):
    """yield (text, order, script) for every script within the deviation bound. Iterative deepening is not needed:
    scripts are generated so that each is visited exactly once."""
    n = 0
    stack = [()]
    while stack:
        prefix = stack.pop()
        text, order, points = run(mol, spec, prefix)
        # replay check of the prefix: answers recorded must equal the prefix
        if tuple(c for _, c in points[:len(prefix)]) != tuple(prefix):
            raise Divergence('prefix not reproduced')
        script = tuple(c for _, c in points)
        yield text, order, script
        n += 1
        if limit and n >= limit:
            return
        used = sum(1 for c in prefix if c)
        for i in range(len(prefix), len(points)):
            arity = points[i][0]
            if bound is not None and used + 1 > bound:
                break
            for alt in range(1, arity):
                stack.append(script[:i] + (alt,))


def count_space(mol, spec='r'):
    return sum(1 for _ in explore(mol, spec))
