import importlib
import os
import sys


def main(argv):
    if not argv:
        print('usage: vcheck <Cxx> [quick|thorough] [--replay FILE]')
        return 3
    pid = argv[0].upper()
    tier = os.environ.get('VERIF_TIER', 'quick')
    replay = None
    rest = argv[1:]
    while rest:
        a = rest.pop(0)
        if a in ('quick', 'thorough'):
            tier = a
        elif a == '--replay':
            replay = rest.pop(0)
        else:
            print('unknown argument', a)
            return 3
    try:
        seed = int(os.environ.get('VERIF_SEED', '0'))
    except ValueError:
        seed = 0
    from vf import boot, core
    boot.boot()
    mod = importlib.import_module('vf.props.' + pid.lower())
    return core.main(pid, mod, tier, seed, replay)


if __name__ == '__main__':
    sys.exit(main(sys.argv[1:]))
