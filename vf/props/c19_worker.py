"""Worker of the C19 configuration grid: one interpreter process = one (PYTHONHASHSEED, order) cell.
Prints JSON {input_id: {mode: {observable: digest}}} ; modes: first, second (cached), flushed, copy."""
import hashlib
import json
import sys


def dg(v):
    return hashlib.sha1(repr(v).encode()).hexdigest()[:12]


def norm(v):
    if isinstance(v, dict):
        return ('D', tuple((norm(k), norm(x)) for k, x in v.items()))   # dict ORDER is part of the observable
    if isinstance(v, (set, frozenset)):
        return ('S', tuple(sorted((norm(x) for x in v), key=repr)), tuple(norm(x) for x in v))  # and so is set iteration order
    if isinstance(v, (list, tuple)):
        return tuple(norm(x) for x in v)
    if isinstance(v, float):
        return round(v, 9)
    if isinstance(v, bytes):
        return v.hex()
    if hasattr(v, 'tolist'):
        return norm(v.tolist())
    return v


def observe(m, queries, heavy=True):
    o = {}

    def put(k, f):
        try:
            o[k] = dg(norm(f()))
        except Exception as e:
            o[k] = 'EXC ' + type(e).__name__
    put('atoms_order', lambda: m.atoms_order)
    put('str', lambda: str(m))
    put('atoms_order_again', lambda: m.atoms_order)
    put('smiles_atoms_order', lambda: m.smiles_atoms_order)
    put('fmt_h', lambda: format(m, 'h'))
    put('fmt_nostereo', lambda: format(m, '!s'))
    put('sssr', lambda: m.sssr)
    put('atoms_rings_sizes', lambda: m.atoms_rings_sizes)
    put('connected_components', lambda: m.connected_components)
    put('linear_hash_set', lambda: sorted(m.linear_hash_set()))
    put('morgan_hash_set', lambda: sorted(m.morgan_hash_set()))
    put('linear_bit_set', lambda: sorted(m.linear_bit_set()))
    if heavy:
        put('linear_hash_smiles', lambda: sorted((k, sorted(v)) for k, v in m.linear_hash_smiles().items()))
    if heavy:
        put('morgan_hash_smiles', lambda: sorted((k, sorted(v)) for k, v in m.morgan_hash_smiles(1, 3).items()))
    put('chiral_morgan', lambda: m._chiral_morgan)
    put('stereogenic', lambda: (m.stereogenic_tetrahedrons, m.stereogenic_cis_trans, m.stereogenic_allenes))
    for qi, q in queries:
        put('match%d' % qi, lambda: [sorted(x.items()) for x in q.get_mapping(m, _cython=False)])
        put('match_all%d' % qi, lambda: [sorted(x.items()) for x in q.get_mapping(m, automorphism_filter=False, _cython=False)][:50])
        if qi < 4:   # a scoped search in between must not change what later (unscoped) searches see
            scope = list(m)[:max(1, len(m) // 2)]
            put('match_scoped%d' % qi, lambda: [sorted(x.items()) for x in q.get_mapping(m, searching_scope=scope, _cython=False)][:50])
    if heavy:
        put('pack', lambda: m.pack(compressed=False))
    put('labels', lambda: [(n, a.implicit_hydrogens, a.hybridization, a.in_ring, sorted(a.ring_sizes), a.stereo) for n, a in m.atoms()])
    return o


COLD = [False]


def normalised(m):
    """standardisation results, each on its own copy"""
    o = {}

    def put(k, f):
        try:
            c = m.copy()
            r = f(c)
            rr = c.copy()
            o[k] = dg(norm((r, str(c), [(n, a.charge, a.implicit_hydrogens) for n, a in c.atoms()], c.sssr, c.atoms_rings_sizes)))
            # derived values read on the processed object vs its copy vs after a flush: cache coherence after normalisation
            o[k + '/copy'] = dg(norm((r, str(rr), [(n, a.charge, a.implicit_hydrogens) for n, a in rr.atoms()], rr.sssr, rr.atoms_rings_sizes)))
            c.flush_cache()
            o[k + '/flushed'] = dg(norm((r, str(c), [(n, a.charge, a.implicit_hydrogens) for n, a in c.atoms()], c.sssr, c.atoms_rings_sizes)))
            # the same operation on a copy whose caches are cold (nothing read before): warm caches must not change the result
            cold = m.copy()
            cold.flush_cache()
            COLD[0] = True
            try:
                r2 = f(cold)
            finally:
                COLD[0] = False
            o[k + '/cold'] = dg(norm((r2, str(cold), [(n, a.charge, a.implicit_hydrogens) for n, a in cold.atoms()], cold.sssr, cold.atoms_rings_sizes)))
        except Exception as e:
            o[k] = o[k + '/copy'] = o[k + '/flushed'] = o[k + '/cold'] = 'EXC ' + type(e).__name__
    def pre(c):
        if COLD[0]:
            return
        c.sssr
        c.atoms_order
        str(c)
    put('canonicalize', lambda c: (pre(c), c.canonicalize(logging=True))[1] if _haslog(c.canonicalize) else (pre(c), c.canonicalize())[1])
    put('canonicalize_kekule', lambda c: (pre(c), c.canonicalize(keep_kekule=True))[1])
    put('canonicalize_notaut', lambda c: (pre(c), c.canonicalize(fix_tautomers=False))[1])
    put('implicify', lambda c: (pre(c), c.implicify_hydrogens())[1])
    put('standardize', lambda c: (pre(c), c.standardize(logging=True))[1])
    put('standardize_charges', lambda c: (pre(c), c.standardize_charges(logging=True))[1])
    put('neutralize', lambda c: (pre(c), c.neutralize(logging=True))[1] if hasattr(c, 'neutralize') else None)
    put('kekule', lambda c: (pre(c), c.kekule())[1])
    put('thiele', lambda c: (pre(c), c.kekule(), c.thiele())[2])
    put('explicify', lambda c: (pre(c), c.explicify_hydrogens())[1])
    return o


def _haslog(f):
    import inspect
    try:
        return 'logging' in inspect.signature(f).parameters
    except Exception:
        return False


def main():
    sys.path.insert(0, sys.argv[1])
    from vf import boot
    boot.boot()
    from chython import smiles, smarts
    from vf.scope import inputs, molecules as M
    order = sys.argv[2]
    stride = int(sys.argv[3])
    nq = int(sys.argv[4])
    items = [('corpus:' + s, s) for s in M.corpus(stride=stride)]
    items += [('group:' + a, a) for a, b in inputs.test_groups_pairs()]
    items += [('metal:' + s, s) for s in inputs.organometallics()]
    items += [('stereo:' + s, s) for s in inputs.ring_stereo_family()]
    items += [('mixed:' + s, s) for s in ('S=C=S.C1CC1', 'NC(N)=S.C1CCCCC1', 'CC(C)=S.c1ccccc1', 'CN=C=S.C1CC1', 'P#N.C1CC1', 'C1CC1.S=C=S', 'C1CC1.[C]', 'C1CC1.C#[B]', 'CC(=O)[O-].[NH4+]', 'C1CC1.CC.O',
                                            'c1ccccc1.C=S', 'C1CC1.CSC.S', 'O=C=O.C1CC1.[S]')]
    items += [('azolium:' + s, s) for s in ('Cc1cc[nH][nH+]1', 'Cc1[nH+]c(CC)[nH]c1', 'c1c[nH+]c[nH]1', 'Cc1c[nH]c[nH+]1', 'CCn1cc[n+](C)c1', 'Cc1[nH]cc[nH+]1', 'Cc1[nH+]cc[nH]1', 'CC1=CN2C=CNC2=C1',
                                              'CC(=O)C1=CN2C=CSC2=C1', 'C[n+]1ccn(C)c1C', 'Cc1c[nH+]c(C)[nH]1')]
    small = []
    for i, spec in enumerate(M.scope(5, 1)):
        if i % (3 if stride <= 8 else 6) == 0:
            small.append(('small:' + spec['tag'], spec))
    queries = [(i, smarts(s)) for i, s in enumerate(inputs.SMARTS_QUERIES[:nq])]
    work = items + small
    if order == 'rev':
        work = work[::-1]
    out = {}
    for key, src in work:
        try:
            m = smiles(src) if isinstance(src, str) else M.to_chython(src)
        except Exception as e:
            out[key] = {'parse': 'EXC ' + type(e).__name__}
            continue
        qs = queries if key.startswith(('corpus', 'small')) else queries[:6]
        r = {}
        c0 = m.copy()
        r['first'] = observe(m, qs)
        r['second'] = observe(m, qs)
        m.flush_cache()
        r['flushed'] = observe(m, qs, heavy=False)
        r['copy'] = observe(c0, qs)
        r['copy_after'] = observe(m.copy(), qs, heavy=False)
        # a transaction that edits, reads everything and then fails must leave nothing behind: evaluation after the rollback = first evaluation
        c2 = c0.copy()
        try:
            with c2:
                first = next(iter(c2))
                c2.add_bond(first, c2.add_atom('C'), 1)
                if len(c2) > 2:
                    c2.delete_atom(list(c2)[1])
                observe(c2, qs[:2], heavy=False)
                raise KeyError('abort')
        except Exception:
            pass
        r['after_failed_tx'] = observe(c2, qs, heavy=False)
        # same observables asked in the opposite order on a fresh copy (first-call order must not matter)
        c1 = c0.copy()
        rev = {}
        for k_, f_ in (('sssr', lambda: c1.sssr), ('atoms_rings_sizes', lambda: c1.atoms_rings_sizes), ('connected_components', lambda: c1.connected_components),
                       ('smiles_atoms_order', lambda: c1.smiles_atoms_order), ('fmt_h', lambda: format(c1, 'h')), ('str', lambda: str(c1)), ('atoms_order', lambda: c1.atoms_order),
                       ('labels', lambda: [(n, a.implicit_hydrogens, a.hybridization, a.in_ring, sorted(a.ring_sizes), a.stereo) for n, a in c1.atoms()])):
            try:
                rev[k_] = dg(norm(f_()))
            except Exception as e:
                rev[k_] = 'EXC ' + type(e).__name__
        r['reversed_order'] = rev
        r['norm'] = normalised(m)
        out[key] = r
    json.dump(out, sys.stdout)


if __name__ == '__main__':
    main()
