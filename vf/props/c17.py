"""C17 -- fingerprints are functions of the structure with the documented fragment semantics."""
import itertools

from ..core import Acc, Stage
from ..oracle import paths
from ..scope import molecules as M, graphs

META = {
    'technique': 'bounded exhaustive enumeration of molecules x numberings x insertion orders x parameter grid on the real fingerprint code vs an independent path / neighbourhood enumerator',
    'rule': 'one state per (molecule, numbering/insertion order); transitions = fingerprint calls over the (min,max,bit-pairs) and (length, active-bits) grids',
    'assumptions': ['atom identifier = built-in hash of (isotope or 0, atomic number, charge, radical) and fragment hash = built-in tuple hash, as the code documents',
                    'PYTHONHASHSEED does not influence int/tuple-of-int hashes'],
}

RADII = [(a, b) for a in range(1, 7) for b in range(a, 7)]
LENGTHS = [2 ** k for k in range(4, 13)]


def plain(m):
    atoms = {n: (a.isotope, a.atomic_number, a.charge, a.is_radical) for n, a in m.atoms()}
    adj = {n: {k: b.order for k, b in m._bonds[n].items()} for n in m}
    return atoms, adj


def check_mol(acc, m, tag, full_grid):
    atoms, adj = plain(m)

    def bad(what, **d):
        acc.fail(what, mol=tag, **d)
        acc.outcomes['FAIL ' + what] += 1
    radii = RADII if full_grid else [(1, 4), (2, 3), (1, 1), (3, 6), (1, 6)]
    bps = (0, 1, 2, 3, 4, 5) if full_grid else (0, 2, 4)
    try:
        for lo, hi in radii:
            for nbp in bps:
                acc.transitions += 1
                exp = paths.linear_hash_set(atoms, adj, lo, hi, nbp)
                got = m.linear_hash_set(lo, hi, nbp)
                if got != exp:
                    bad('linear_hash_set differs from path enumerator', params=[lo, hi, nbp], got=len(got), expected=len(exp))
                    return
            acc.transitions += 1
            exp = paths.morgan_hash_set(atoms, adj, lo, hi)
            got = m.morgan_hash_set(lo, hi)
            if got != exp:
                bad('morgan_hash_set differs from neighbourhood hasher', params=[lo, hi], got=len(got), expected=len(exp))
                return
        # fragment dictionaries
        acc.transitions += 2
        d = m.linear_hash_smiles(1, 4, 4)
        if set(d) != paths.linear_hash_set(atoms, adj, 1, 4, 4):
            bad('linear_hash_smiles keys differ from hash set')
        inv = m.linear_smiles_hash(1, 4, 4)
        if {(k, s) for k, v in d.items() for s in v} != {(k, s) for s, v in inv.items() for k in v}:
            bad('linear_smiles_hash is not the inverse of linear_hash_smiles')
        # both dictionaries under every cap, positional and keyword
        for lo_, hi_, nbp_ in ((1, 4, 0), (1, 4, 1), (1, 4, 2), (2, 5, 3), (1, 3, 6)):
            acc.transitions += 2
            d_ = m.linear_hash_smiles(lo_, hi_, nbp_)
            if set(d_) != paths.linear_hash_set(atoms, adj, lo_, hi_, nbp_):
                bad('linear_hash_smiles keys differ from hash set', params=[lo_, hi_, nbp_])
                break
            for how, inv_ in (('positional', m.linear_smiles_hash(lo_, hi_, nbp_)), ('keyword', m.linear_smiles_hash(min_radius=lo_, max_radius=hi_, number_bit_pairs=nbp_))):
                if {(k, s_) for k, v in d_.items() for s_ in v} != {(k, s_) for s_, v in inv_.items() for k in v}:
                    bad('linear_smiles_hash is not the inverse of linear_hash_smiles', params=[lo_, hi_, nbp_, how])
                    break
        dm = m.morgan_hash_smiles(1, 3)
        if set(dm) != paths.morgan_hash_set(atoms, adj, 1, 3):
            bad('morgan_hash_smiles keys differ from hash set')
        # folding
        hl = paths.linear_hash_set(atoms, adj, 1, 4, 4)
        hm = paths.morgan_hash_set(atoms, adj, 1, 4)
        for ln in (LENGTHS if full_grid else (16, 1024, 4096)):
            for nab in (1, 2, 3, 4):
                acc.transitions += 2
                got = m.linear_bit_set(1, 4, ln, nab, 4)
                if got != paths.fold(hl, ln, nab) or any(not 0 <= b < ln for b in got):
                    bad('linear_bit_set does not follow length/active-bits', params=[ln, nab])
                    return
                got = m.morgan_bit_set(1, 4, ln, nab)
                if got != paths.fold(hm, ln, nab) or any(not 0 <= b < ln for b in got):
                    bad('morgan_bit_set does not follow length/active-bits', params=[ln, nab])
                    return
        # the array forms take the same parameters (positional and by keyword) as the bit sets
        for ln in (64, 256):
            for nab in (1, 2, 3, 4):
                acc.transitions += 4
                for how, fp in (('positional', m.linear_fingerprint(1, 4, ln, nab, 4)), ('keyword', m.linear_fingerprint(min_radius=1, max_radius=4, length=ln, number_active_bits=nab, number_bit_pairs=4))):
                    if len(fp) != ln or {i for i, x in enumerate(fp) if x} != paths.fold(hl, ln, nab):
                        bad('linear_fingerprint array differs from bit set', params=[ln, nab, how])
                        return
                for how, fp in (('positional', m.morgan_fingerprint(1, 4, ln, nab)), ('keyword', m.morgan_fingerprint(min_radius=1, max_radius=4, length=ln, number_active_bits=nab))):
                    if len(fp) != ln or {i for i, x in enumerate(fp) if x} != paths.fold(hm, ln, nab):
                        bad('morgan_fingerprint array differs from bit set', params=[ln, nab, how])
                        return
    except Exception as e:
        bad('fingerprint raised %s' % type(e).__name__)


def _normtext(x):
    """fragment text modulo what the fragment descriptor does not contain: aromatic case, hydrogen counts, direction, and the number of bond
    symbols (a double bond that closes a ring is written at both digits: C=1C2=CC=12 and C1=C2C=C12 are one fragment)"""
    return ''.join(sorted(c for c in x.lower() if c.isalpha() and c != 'h'))


def signature(m):
    d = m.linear_hash_smiles(1, 4, 4)
    dm = m.morgan_hash_smiles(1, 3)
    return (frozenset(m.linear_hash_set(1, 5, 0)), frozenset(m.morgan_hash_set(1, 4)), frozenset(m.linear_bit_set()), frozenset(m.morgan_bit_set()),
            frozenset((k, tuple(sorted(_normtext(x) for x in v))) for k, v in d.items()),
            frozenset((k, tuple(sorted(_normtext(x.replace('@', '')) for x in v))) for k, v in dm.items()),
            frozenset((k, tuple(sorted(v))) for k, v in d.items()),
            frozenset((k, tuple(sorted(v))) for k, v in dm.items()))


KF_TEXT = 'linear_hash_smiles representative fragment text depends on numbering (aromatic case / direction of the first chain)'


def compare_sig(acc, a, b, **detail):
    if a[:6] != b[:6]:
        acc.fail('fingerprints depend on numbering / insertion order', component=[i for i in range(6) if a[i] != b[i]], **detail)
    elif a[6] != b[6]:
        # same identifiers, same letters. The descriptor of a chain is oriented by its content, so the direction of the text is a function of the
        # structure unless the descriptor reads the same both ways; what may differ with the numbering is the aromatic case / hydrogen count shown for
        # an atom (the recorded finding). A text that is the other one read backwards is a different failure.
        da, db = dict(a[6]), dict(b[6])
        for k in da:
            if da[k] != db.get(k) and sorted(map(_chain_tokens, da[k])) != sorted(map(_chain_tokens, db.get(k, ()))):
                acc.fail('linear_hash_smiles writes a chain in a numbering-dependent direction', texts=[list(da[k]), list(db.get(k, ()))], **detail)
                return
        acc.fail(KF_TEXT, **detail)
    elif a[7] != b[7]:
        # the neighbourhood texts differ although hash keys, sets and bits agree. If both texts denote the same fragment (independent canonical code of the
        # parsed texts, stereo ignored) this is the canonical-SMILES gap that C01 records (stereo marks on pseudo-asymmetric centres of the cut-out fragment,
        # Kekule spelling of alternating rings such as C=1C2=CC=12 / C1=C2C=C12), not a fingerprint property; otherwise the dictionary names another fragment.
        da, db = dict(a[7]), dict(b[7])
        for k in da:
            if da[k] != db.get(k) and sorted(map(_frag_code, da[k])) != sorted(map(_frag_code, db.get(k, ()))):
                acc.fail('morgan_hash_smiles names a different fragment for the same identifier under another numbering', texts=[list(da[k]), list(db.get(k, ()))], **detail)
                return
        acc.ood['morgan_hash_smiles text differs only in the canonical spelling of the cut-out fragment (C01 gaps: stereo marks, alternating-ring Kekule form)'] += 1


def _chain_tokens(text):
    """tokens of a chain text with what the chain descriptor does not hold removed (aromatic case, hydrogen counts)"""
    import re
    out = []
    for tok in re.findall(r'\[[^\]]*\]|Cl|Br|[A-Za-z]|[^A-Za-z\[\]]', text):
        if tok[0] == '[':
            tok = re.sub(r'(?<=[A-Za-z])H\d*', '', tok).lower()
            if tok[1:-1].isalpha():
                tok = tok[1:-1]
        out.append(tok.lower())
    return tuple(out)


def _frag_code(text):
    from chython import smiles
    from ..oracle import iso
    try:
        m = smiles(text)
        if any(bd.order == 4 for *_, bd in m.bonds()):
            m.kekule()
            m.thiele()
    except Exception:
        return ('unreadable', text)
    idx = {n: i for i, n in enumerate(m)}
    return iso.canon_code(len(m), [(idx[x], idx[y]) for x, y, _ in m.bonds()], [(at.atomic_symbol, at.charge, at.is_radical, at.isotope) for _, at in m.atoms()],
                          {frozenset((idx[x], idx[y])): 1 for x, y, bd in m.bonds()})


def run_small(shard):
    k, nsh, tier = shard
    acc = Acc()
    nmax, kk = (5, 1) if tier == 'quick' else (5, 2)
    for i, spec in enumerate(M.scope(nmax, kk, with_h=True, with_iso=True, shard=k, nshards=nsh)):
        n = len(spec['atoms'])
        base = M.to_chython(spec)
        acc.states += 1
        check_mol(acc, base, spec['tag'], full_grid=(i % 5 == 0))
        sig = signature(base)
        perms = itertools.permutations(range(1, n + 1)) if n <= 4 else [list(p.values()) for p in graphs.gen_perms(list(range(1, n + 1)))]
        for pi, p in enumerate(perms):
            p = list(p)
            for ao in (list(range(n)), list(range(n))[::-1]):
                acc.states += 1
                acc.transitions += 6
                spec2 = dict(spec, bonds=spec['bonds'] if pi % 2 == 0 else spec['bonds'][::-1])
                m2 = M.to_chython(spec2, numbers=p, atom_order=ao)
                try:
                    compare_sig(acc, signature(m2), sig, mol=spec['tag'], numbers=p, atom_order=ao)
                except Exception as e:
                    acc.fail('fingerprint raised %s' % type(e).__name__, mol=spec['tag'])
        if i < 2 and k == 0:
            acc.sample({'mol': spec['tag'], 'numberings': 'ALL' if n <= 4 else 'GEN'})
        acc.outcomes[len(sig[0]) % 7, len(sig[1]) % 7] += 1
    return acc


def run_corpus(shard):
    from chython import smiles
    k, nsh, tier = shard
    acc = Acc()
    rows = M.corpus(stride=8 if tier == 'quick' else 1)
    for i, s in enumerate(rows):
        if i % nsh != k:
            continue
        m = smiles(s)
        acc.states += 1
        check_mol(acc, m, s, full_grid=False)
        sig = signature(m)
        nums = list(m)
        for p in graphs.gen_perms(nums)[:: max(1, len(nums) // 4)][:6]:
            acc.states += 1
            acc.transitions += 6
            c = m.copy()
            c.remap(p)
            compare_sig(acc, signature(c), sig, mol=s, numbers=list(p.values()))
        acc.outcomes['corpus', len(m) // 10] += 1
        if i < 2:
            acc.sample({'smiles': s})
    return acc


def run_history(shard):
    """fingerprints are functions of the current structure, not of the calls made before: fingerprint, edit in place (hydrogens explicit / implicit, kekule, thiele,
    standardize, canonicalize, renumber, delete or add an atom), fingerprint again = fingerprint of a fresh copy of the edited molecule"""
    from chython import smiles
    acc = Acc()
    mols = ['CCO', 'CC(=O)O', 'c1ccccc1C', 'C1CC1C', 'CC(C)(C)C', 'c1ccc2ccccc2c1', 'C[N+](C)(C)C', 'OC(=O)CN', '[Na+].[Cl-]', 'C[Fe]C', 'CC[O-].[Na+]', 'c1cc[nH]c1', 'C[C@H](N)C(=O)O', 'C/C=C/C', 'O=C1CCCC1',
            'CN(=O)=O', 'C1CC2CCC1C2'] + M.corpus(stride=300)[:8]
    ops = [('explicify_hydrogens', lambda m: m.explicify_hydrogens()), ('implicify_hydrogens', lambda m: (m.explicify_hydrogens(), m.linear_hash_set(), m.morgan_hash_set(), m.implicify_hydrogens())),
           ('kekule', lambda m: m.kekule()), ('thiele', lambda m: (m.kekule(), m.linear_hash_set(), m.thiele())), ('standardize', lambda m: m.standardize()), ('canonicalize', lambda m: m.canonicalize()),
           ('remap', lambda m: m.remap({n: n + 7 for n in list(m)})), ('delete_atom', lambda m: m.delete_atom(list(m)[-1])), ('add_atom+bond', lambda m: m.add_bond(list(m)[0], m.add_atom('C'), 1)),
           ('neutralize', lambda m: m.neutralize()), ('remove_coordinate_bonds', lambda m: m.remove_coordinate_bonds() if hasattr(m, 'remove_coordinate_bonds') else None)]
    calls = [('linear_hash_set', lambda m: sorted(m.linear_hash_set())), ('linear_hash_set(1,6)', lambda m: sorted(m.linear_hash_set(1, 6))), ('morgan_hash_set', lambda m: sorted(m.morgan_hash_set())),
             ('linear_bit_set', lambda m: sorted(m.linear_bit_set())), ('morgan_bit_set', lambda m: sorted(m.morgan_bit_set())),
             ('linear_hash_smiles', lambda m: sorted((k, sorted(v)) for k, v in m.linear_hash_smiles().items()))]
    for s in mols:
        for oname, op in ops:
            try:
                m = smiles(s)
            except Exception:
                continue
            acc.states += 1
            try:
                before = [f(m) for _, f in calls]
                op(m)
            except Exception as e:
                acc.outcomes[('operation not applicable', type(e).__name__)] += 1
                continue
            fresh = m.copy()
            fresh.flush_cache()
            for cname, f in calls:
                acc.transitions += 1
                try:
                    got = f(m)
                    exp = f(fresh)
                except Exception as e:
                    acc.fail('%s raised %s after an in-place %s' % (cname, type(e).__name__, oname), mol=s, op=oname)
                    break
                if got != exp:
                    acc.fail('%s after an in-place %s differs from the value on a fresh copy (depends on the calls made before)' % (cname, oname), mol=s, op=oname)
                    break
            acc.outcomes[oname] += 1
    acc.sample({'molecules': mols[:6], 'operations': [o[0] for o in ops]})
    return acc


def plan(tier, seed):
    return [Stage('small scope x numberings', run_small, [(k, 64, tier) for k in range(64)],
                  'D(<=5,%d) x ALL numberings (n<=4) / GEN (n=5) x 2 atom insertion orders x 2 bond orders; parameter grids' % (1 if tier == 'quick' else 2)),
            Stage('corpus x GEN subset', run_corpus, [(k, 64, tier) for k in range(64)],
                  'lipophilicity.csv stride %d, 6 GEN renumberings each' % (8 if tier == 'quick' else 1)),
            Stage('call history', run_history, [0], '25 molecules x 11 in-place edits (hydrogens, kekule/thiele, standardize, renumber, atom edits) between two evaluations of 6 fingerprint calls: second value = value on a fresh copy')]


def replay(rec):
    from chython import smiles
    acc = Acc()
    tag = rec.get('mol', '')
    if rec.get('op'):
        a = run_history(0)
        return [f for f in a.fails if f['key'] == rec['key']]
    if tag.startswith('n'):
        specs = {s['tag']: s for s in M.scope(5, 2, with_h=True, with_iso=True)}
        spec = specs[tag]
        m = M.to_chython(spec)
        check_mol(acc, m, tag, True)
        if 'numbers' in rec:
            m2 = M.to_chython(spec, numbers=rec['numbers'], atom_order=rec.get('atom_order'))
            compare_sig(acc, signature(m2), signature(m))
    else:
        m = smiles(tag)
        check_mol(acc, m, tag, True)
        if 'numbers' in rec:
            c = m.copy()
            c.remap(dict(zip(list(m), rec['numbers'])))
            compare_sig(acc, signature(c), signature(m))
    return [f for f in acc.fails if f['key'] == rec['key']]
