"""C18 -- periodic table data: complete, mutually consistent, representable (finite space, enumerated completely)."""
import re

from ..core import Acc, Stage

META = {
    'technique': 'complete enumeration of the finite table space (118 elements x tabulated isotopes x charge -4..4 x radical x H) against a hand-written symbol table, the pack model and a decoder of the matcher bit layout',
    'rule': 'one state per (element, isotope|None, charge, radical) plus one per (element, hydrogen count); every state is packed/unpacked through the pyx model and encoded through the matcher layout',
    'assumptions': ['the .pyx modules are executed as a Python model with C integer semantics (no Cython in the sandbox)',
                    'standard table = the 118 IUPAC symbols written out in this file'],
}

SYMBOLS = ('H He Li Be B C N O F Ne Na Mg Al Si P S Cl Ar K Ca Sc Ti V Cr Mn Fe Co Ni Cu Zn Ga Ge As Se Br Kr Rb Sr Y Zr Nb Mo Tc Ru Rh Pd Ag Cd '
           'In Sn Sb Te I Xe Cs Ba La Ce Pr Nd Pm Sm Eu Gd Tb Dy Ho Er Tm Yb Lu Hf Ta W Re Os Ir Pt Au Hg Tl Pb Bi Po At Rn Fr Ra Ac Th Pa U Np Pu '
           'Am Cm Bk Cf Es Fm Md No Lr Rf Db Sg Bh Hs Mt Ds Rg Cn Nh Fl Mc Lv Ts Og').split()
assert len(SYMBOLS) == 118


def pyx_common_isotopes(rel):
    import os
    from ..boot import REPO
    txt = open(os.path.join(REPO, rel)).read()
    m = re.search(r'common_isotopes\[:\]\s*=\s*\[([^\]]*)\]', txt)
    return [int(x) for x in m.group(1).replace('\n', ' ').split(',')]


def decode_v3(v3):
    """decoder of 'long III' written from the layout comment in isomorphism.py (bit 63 = isotope unspecified,
    46..62 isotope offset -8..+8, 44/45 radical no/yes, 35..43 charge -4..+4, 30..34 H 0..4, 15..29 neighbours, 0..14 heteroatoms)"""
    def ones(lo, hi):
        return [i for i in range(lo, hi + 1) if v3 >> i & 1]
    iso = ones(46, 63)
    rad = ones(44, 45)
    ch = ones(35, 43)
    h = ones(30, 34)
    nb = ones(15, 29)
    het = ones(0, 14)
    return iso, rad, ch, h, nb, het


def run_elements(shard):
    import chython
    from chython import MoleculeContainer
    from chython.periodictable import Element, QueryElement, DynamicElement
    import chython.periodictable as pt
    lo, hi = shard
    acc = Acc()
    ci_pack = pyx_common_isotopes('chython/containers/_pack_v2.pyx')
    ci_unpack = None
    try:
        ci_unpack = pyx_common_isotopes('chython/containers/_unpack_v0v2.pyx')
    except Exception:
        pass
    for z in range(lo, hi):
        sym = SYMBOLS[z - 1]
        tag = 'element=%s' % sym

        def bad(what, **kw):
            acc.fail('%s %s' % (tag, what), z=z, symbol=sym, **kw)
        acc.states += 1
        acc.transitions += 1
        # --- lookups
        try:
            cls = Element.from_symbol(sym)
            a = cls()
            if a.atomic_number != z:
                bad('symbol lookup gives number %s' % a.atomic_number)
            cls2 = Element.from_atomic_number(z)
            if cls2.__name__ != sym or cls2 is not cls:
                bad('number lookup gives %s' % cls2.__name__)
            if getattr(pt, sym, None) is not cls or a.atomic_symbol != sym:
                bad('module export / atomic_symbol mismatch')
        except Exception as e:
            bad('lookup raised %s' % type(e).__name__)
            continue
        # --- isotope tables
        try:
            masses = a.isotopes_masses
            dist = a.isotopes_distribution
            ref = a.mdl_isotope
            if set(masses) != set(dist):
                bad('isotope tables have different keys', masses=sorted(masses), distribution=sorted(dist))
            if ref not in masses or ref not in dist:
                bad('reference isotope absent from isotope tables', mdl_isotope=ref)
            tot = sum(dist.values())
            if not (0.98 <= tot <= 1.02):
                bad('abundances sum to %.4f' % tot)
            for i, mass in masses.items():
                if not isinstance(i, int) or abs(mass - i) > 0.6:
                    bad('isotope %s mass %s implausible' % (i, mass))
        except Exception as e:
            bad('isotope tables raised %s' % type(e).__name__)
            continue
        # --- atomic mass
        try:
            am = a.atomic_mass
            if not (min(masses) - 1 <= am <= max(masses) + 1):
                bad('natural atomic_mass %s outside isotope range' % am)
        except Exception as e:
            bad('atomic_mass raised %s' % type(e).__name__)
        # --- the reference isotope as the constructor reaches it (mass-difference form of the file readers): reference + d for d = -1, 0, +1
        for d in (-1, 0, 1):
            acc.transitions += 1
            try:
                b = cls(delta_isotope=d)
                if b.isotope != ref + d:
                    bad('delta_isotope=%d gives isotope %s, reference isotope is %s' % (d, b.isotope, ref))
                elif b.isotope in masses and abs(b.atomic_mass - masses[b.isotope]) > 1e-9:
                    bad('atomic_mass of reference%+d isotope is not the tabulated isotope mass' % d)
            except ValueError:
                if ref + d in masses:
                    bad('delta_isotope=%d rejected although isotope %d is tabulated' % (d, ref + d))
            except Exception as e:
                bad('delta_isotope=%d raised %s' % (d, type(e).__name__))
        for i in sorted(masses):
            try:
                if abs(cls(i).atomic_mass - masses[i]) > 1e-9:
                    bad('atomic_mass of isotope %d wrong' % i)
            except Exception as e:
                bad('atomic_mass of isotope %d raised %s' % (i, type(e).__name__))
        # --- common_isotopes tables of the pack format
        if ci_pack[z] != ref - 16:
            bad('_pack_v2.pyx common_isotopes[%d]=%d != mdl_isotope-16=%d' % (z, ci_pack[z], ref - 16))
        if ci_unpack is not None and ci_unpack[z] != ref - 16:
            bad('_unpack_v0v2.pyx common_isotopes[%d]=%d != mdl_isotope-16=%d' % (z, ci_unpack[z], ref - 16))
        # --- valence rule tables
        try:
            named = set()
            for key, val in a._compiled_valence_rules.items():
                for s_, d_, h_ in val:
                    named.update(k[1] for k in s_)
                    named.update(k[1] for k in d_)
            for c_, r_, v_, i_, d_ in a._compiled_saturation_rules:
                if d_:
                    named.update(k[1] for k in d_)
            a._compiled_charge_radical
            # every tabulated state must fit the fixed-width fields of the codecs: hydrogens 0..6 in the pack, 0..4 in the matcher word, charge -4..4
            for (c_, r_, v_), val in a._compiled_valence_rules.items():
                if not -4 <= c_ <= 4:
                    bad('valence table holds charge %d outside the codec range -4..4' % c_)
                for s_, d_, h_ in val:
                    if h_ > 4:
                        bad('valence table holds a state with %d implicit hydrogens: outside the matcher hydrogen field (0..4)' % h_, charge=c_, bond_sum=v_)
                    if h_ > 6 or h_ < 0:
                        bad('valence table holds a state with %d implicit hydrogens: outside the pack hydrogen field (0..6)' % h_, charge=c_, bond_sum=v_)
            for k in named:
                if not (isinstance(k, int) and 1 <= k <= 118):
                    bad('valence rule names element %r' % (k,))
        except Exception as e:
            bad('valence rules raised %s' % type(e).__name__)
        # --- query / dynamic variants
        try:
            q = QueryElement.from_atomic_number(z)
            d = DynamicElement.from_atomic_number(z)
            if q().atomic_number != z or q.__name__ != 'Query' + sym or getattr(pt, 'Query' + sym) is not q:
                bad('query variant wrong')
            if q().mdl_isotope != ref:
                bad('query variant mdl_isotope differs')
            if d.__name__ != 'Dynamic' + sym or getattr(pt, 'Dynamic' + sym) is not d or d.atomic_number.fget(None) != z:
                bad('dynamic variant wrong')
            if QueryElement.from_symbol(sym) is not q or DynamicElement.from_symbol(sym) is not d:
                bad('query/dynamic symbol lookup wrong')
            qa = QueryElement.from_atom(a)
            da = DynamicElement.from_atom(a)
            if qa.atomic_number != z or da.atomic_number != z:
                bad('from_atom variant number differs')
        except Exception as e:
            bad('query/dynamic variant raised %s' % type(e).__name__)
        # --- representability: pack format and matcher layout
        for iso in [None] + sorted(masses):
            for ch in range(-4, 5):
                for rad in (False, True):
                    acc.states += 1
                    acc.transitions += 2
                    try:
                        m = MoleculeContainer()
                        m.add_atom(cls(iso, charge=ch, is_radical=rad), 1)
                        h0 = m.atom(1).implicit_hydrogens
                        data = m.pack()
                        u = MoleculeContainer.unpack(data)
                        ua = u.atom(1)
                        got = (ua.atomic_number, ua.isotope, ua.charge, ua.is_radical, ua.implicit_hydrogens)
                        if got != (z, iso, ch, rad, h0):
                            bad('pack round trip of isotope=%s charge=%d radical=%s gives %r' % (iso, ch, rad, got))
                        if MoleculeContainer.pack_len(data) != 1:
                            bad('pack_len wrong')
                    except Exception as e:
                        bad('pack of isotope=%s charge=%d radical=%s raised %s' % (iso, ch, rad, type(e).__name__))
                        continue
                    try:
                        cs = m._cython_compiled_structure
                        import struct
                        natoms, = struct.unpack_from('I', cs, 0)
                        v1, v2, v3, v4, o_from, o_to, number = struct.unpack_from('QQQQIII', cs, 4)
                        if natoms != 1 or number != 1:
                            bad('matcher structure header wrong')
                    except Exception as e:
                        bad('matcher encoding of isotope=%s charge=%d radical=%s raised %s' % (iso, ch, rad, type(e).__name__))
                        continue
                    # element words, from the layout comment: long I = 5 bond bits | 2 ring bits | H..Ba (56 bits, H highest) | transfer bit;
                    # long II = La..Mc (59 bits, La highest) | one bit shared by Lv, Ts, Og | 4 hybridisation bits (sp3 lowest)
                    exp_v1 = (1 << (57 - z)) if z <= 56 else 1
                    exp_v2 = (1 << 0) | ((1 << (120 - min(z, 116))) if z > 56 else 0)
                    if v1 != exp_v1 or v2 != exp_v2:
                        bad('matcher element words of the atom are not the one-bit-per-element layout of the comment', got=[hex(v1), hex(v2)], expected=[hex(exp_v1), hex(exp_v2)])
                    isob, radb, chb, hb, nb, het = decode_v3(v3)
                    exp_iso = [63] if iso is None else [iso - ref + 54]
                    if iso is not None and not (46 <= iso - ref + 54 <= 62):
                        bad('isotope %d offset %d outside the 17-bit matcher window' % (iso, iso - ref))
                    if isob != exp_iso or radb != [45 if rad else 44] or chb != [ch + 39] or hb != [(h0 or 0) + 30] or nb != [15] or het != [0] \
                            or v3 >> 64:
                        bad('matcher layout of isotope=%s charge=%d radical=%s decodes to %r' % (iso, ch, rad, (isob, radb, chb, hb, nb, het)))
                    acc.outcomes[(ch, rad, iso is None)] += 1
        for h in (None, 0, 1, 2, 3, 4, 5, 6):
            acc.states += 1
            acc.transitions += 1
            try:
                m = MoleculeContainer()
                m.add_atom(cls(implicit_hydrogens=h), 1, _skip_calculation=True)
                m.calc_labels()
                u = MoleculeContainer.unpack(m.pack())
                if u.atom(1).implicit_hydrogens != h or u.atom(1).atomic_number != z:
                    bad('pack round trip of hydrogens=%s gives %s' % (h, u.atom(1).implicit_hydrogens))
            except Exception as e:
                bad('pack of hydrogens=%s raised %s' % (h, type(e).__name__))
        if z in (1, 6, 108):
            acc.sample({'element': sym, 'isotopes': sorted(masses), 'mdl_isotope': ref, 'charges': [-4, 4], 'radical': [False, True]})
    return acc


def run_global(shard):
    from chython.periodictable import Element
    acc = Acc()
    acc.states += 1
    acc.transitions += 1
    subs = Element.__subclasses__()
    names = sorted(c.__name__ for c in subs)
    if sorted(SYMBOLS) != names:
        acc.fail('element set differs from the standard table', extra=sorted(set(names) - set(SYMBOLS)), missing=sorted(set(SYMBOLS) - set(names)))
    nums = sorted(c.atomic_number.fget(None) for c in subs)
    if nums != list(range(1, 119)):
        acc.fail('atomic numbers are not exactly 1..118')
    for bad in ('Xx', 'D', 'h', ''):
        try:
            Element.from_symbol(bad)
            acc.fail('from_symbol(%r) did not raise' % bad)
        except ValueError:
            pass
        except Exception as e:
            acc.fail('from_symbol(%r) raised %s' % (bad, type(e).__name__))
    for bad in (0, 119, -1):
        try:
            Element.from_atomic_number(bad)
            acc.fail('from_atomic_number(%r) did not raise' % bad)
        except ValueError:
            pass
        except Exception as e:
            acc.fail('from_atomic_number(%r) raised %s' % (bad, type(e).__name__))
    for rel in ('chython/containers/_pack_v2.pyx', 'chython/containers/_unpack_v0v2.pyx'):
        try:
            t = pyx_common_isotopes(rel)
            if len(t) != 119:
                acc.fail('%s common_isotopes has %d entries' % (rel, len(t)))
        except Exception as e:
            acc.fail('%s common_isotopes unreadable: %s' % (rel, type(e).__name__))
    acc.outcomes['global'] += 1
    return acc


FIRST_CALLS = ['Element.number', 'Element.symbol', 'class.number', 'class.symbol', 'instance.number', 'instance.symbol', 'query.number', 'queryclass.number', 'dynamic.number', 'smiles']


def run_first_call(shard):
    """lookup tables are built lazily by the first call: a fresh interpreter per entry point used first, then every number 1..118 through two entry points"""
    import json
    import os
    import subprocess
    import sys
    from .. import boot
    first, = shard
    acc = Acc()
    acc.states += 1
    acc.transitions += 2 * 118
    env = dict(os.environ, PYTHONDONTWRITEBYTECODE='1')
    p = subprocess.run([sys.executable, os.path.join(boot.VERIF, 'vf', 'props', 'c18_worker.py'), boot.VERIF, first], capture_output=True, text=True, env=env)
    if p.returncode:
        acc.fail('lookup worker crashed :: first call %s' % first, first=first, stderr=p.stderr[-600:])
        return acc
    for msg in json.loads(p.stdout.strip().split('\n')[-1]):
        acc.fail('symbol <-> number lookup inconsistent when the first lookup of the process is %s' % first, first=first, what=msg)
    acc.outcomes[first] += 1
    return acc


def plan(tier, seed):
    return [Stage('global table', run_global, [0], 'element set, number range, rejected lookups, table lengths'),
            Stage('per element', run_elements, [(z, z + 1) for z in range(1, 119)],
                  'all 118 elements x (None + every tabulated isotope) x charge -4..4 x radical; H in {None,0..6}'),
            Stage('first-call order of the lazy lookup tables', run_first_call, [(f,) for f in FIRST_CALLS],
                  'a fresh interpreter per entry point used first (Element / element class / instance / query / dynamic / reader) x every number 1..118 through two entry points')]


def replay(rec):
    z = rec.get('z')
    if rec.get('first'):
        acc = run_first_call((rec['first'],))
        return [f for f in acc.fails if f['key'] == rec['key']]
    acc = run_global([0]) if z is None else run_elements((z, z + 1))
    return [f for f in acc.fails if f['key'] == rec['key']]
