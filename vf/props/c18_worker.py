"""Worker of the C18 first-call grid: one fresh interpreter per (which lookup entry point is used FIRST in the process).
Prints JSON: list of inconsistencies of the symbol <-> number lookups after that first call."""
import json
import sys

verif, first = sys.argv[1], sys.argv[2]
sys.path.insert(0, verif)
from vf import boot  # noqa: E402

boot.boot()
from chython.periodictable import Element  # noqa: E402
import chython.periodictable as pt  # noqa: E402

out = []
try:
    if first == 'Element.number':
        Element.from_atomic_number(6)
    elif first == 'Element.symbol':
        Element.from_symbol('C')
    elif first == 'class.number':
        pt.C.from_atomic_number(7)
    elif first == 'class.symbol':
        pt.C.from_symbol('N')
    elif first == 'instance.number':
        pt.Fe().from_atomic_number(8)
    elif first == 'instance.symbol':
        pt.Fe().from_symbol('O')
    elif first == 'query.number':
        from chython.periodictable import QueryElement
        QueryElement.from_atomic_number(6)
    elif first == 'queryclass.number':
        from chython.periodictable import QueryElement
        QueryElement.from_atomic_number(6).from_atomic_number(7)
    elif first == 'dynamic.number':
        from chython.periodictable import DynamicElement
        DynamicElement.from_atomic_number(6)
    elif first == 'smiles':
        import chython
        chython.smiles('CCO')
except Exception as e:
    out.append('first call %s raised %s' % (first, type(e).__name__))
names = sorted(c.__name__ for c in Element.__subclasses__())
for entry, f_num, f_sym in (('Element', Element.from_atomic_number, Element.from_symbol), ('class C', pt.C.from_atomic_number, pt.C.from_symbol)):
    for z in range(1, 119):
        try:
            cls = f_num(z)
            if cls.atomic_number.fget(None) != z:
                out.append('%s.from_atomic_number(%d) returns element %s' % (entry, z, cls.__name__))
            back = f_sym(cls.__name__)
            if back is not cls:
                out.append('%s.from_symbol(%s) is not the class from_atomic_number(%d) returned' % (entry, cls.__name__, z))
        except Exception as e:
            out.append('%s.from_atomic_number(%d) raised %s' % (entry, z, type(e).__name__))
            if len(out) > 20:
                break
try:
    from chython import MoleculeContainer
    m = MoleculeContainer()
    m.add_atom(6)
    m.add_atom('N')
    if [a.atomic_symbol for _, a in m.atoms()] != ['C', 'N']:
        out.append('add_atom by number / symbol gives other elements')
except Exception as e:
    out.append('add_atom by number raised %s' % type(e).__name__)
print(json.dumps(out[:25]))
