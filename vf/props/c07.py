"""C07 -- substructure search returns exactly the valid embeddings (vs. brute-force reference enumerator)."""
import itertools

from ..core import Acc, Stage
from ..oracle import iso, cycles
from ..scope import molecules as M

META = {
    'technique': 'bounded exhaustive enumeration of (pattern, target[, scope, filter]) tuples on the real matcher vs a brute-force embedding enumerator',
    'rule': 'one state per (pattern, target) pair of the small scopes; transitions = matcher calls (filter on/off, every scope, operators)',
    'assumptions': ['atom and bond compatibility is taken from the library == (their meaning is C08); the reference decides only the set of embeddings',
                    'pure-Python matcher (_cython=False for queries); the compiled-path equivalence is C09'],
}

SMARTS = ['C', 'N', '[C,N]', 'CC', 'C=C', 'C~C', 'C-,=C', 'CN', 'C!-C', 'CCC', 'C(C)C', 'C1CC1', 'C1CCC1', 'C1CC1C', 'C=CC', '[C;D1]C', '[C;D2]', '[C;D3](C)C',
          'C.C', 'C.N', 'CC.C', 'CC.N', 'C=C.C', 'C1CC1.C', '[N,O]C', 'C-;@C', 'C-;!@C', '[C;r3]', '[C;!R]C', '[A]', '[A]~[A]', '[A]~[A]~[A]',
          'C(~C)(~C)~C', 'C1CCC1C', 'C1CC1N', '[C;h2]', '[C;h3][C;h2]', '[C;x1]', '[C;z2]', 'O=C', 'C#C', 'C#N', '[N;D1]', '[O;D1]', 'C1C=C1']


def tgt_specs(nmax, k, stride, off):
    out = []
    for i, s in enumerate(M.scope(nmax, k, elements=['N', 'O'], with_h=False, with_iso=False)):
        if i % stride == off:
            out.append(s)
    return out


def graph_of(m):
    atoms = dict(m.atoms())
    adj = {n: dict(m._bonds[n]) for n in m}
    return atoms, adj


def comp_map(adj):
    comp = {}
    for i, c in enumerate(cycles.components(adj)):
        for a in c:
            comp[a] = i
    return comp


def ref_mappings(p, t, scope=None):
    """reference: all injective maps with atom ==, bond ==, exact closures inside a pattern component, pattern component <->
    distinct target components, images inside scope."""
    pa, padj = graph_of(p)
    ta, tadj = graph_of(t)
    if scope is not None:
        ta = {n: a for n, a in ta.items() if n in scope}
        tadj = {n: {k: b for k, b in ms.items() if k in scope} for n, ms in tadj.items() if n in scope}
    pc = comp_map(padj)
    tc = comp_map({n: dict(m._bonds[n]) for m in (t,) for n in t})   # components of the WHOLE target
    embs = iso.embeddings(pa, padj, ta, tadj, lambda x, y: x == y, lambda x, y: x == y, pc)
    out = []
    for mp in embs:
        ok = True
        img_comp = {}
        for x, y in mp.items():
            c = img_comp.setdefault(pc[x], tc[y])
            if c != tc[y]:
                ok = False
                break
        if ok and len(set(img_comp.values())) != len(img_comp):
            ok = False
        if ok:
            out.append(frozenset(mp.items()))
    return set(out)


def check_pair(acc, p, t, pdesc, tdesc, scopes=False, is_query=False):
    kw = {'_cython': False} if is_query else {}
    acc.states += 1

    def bad(what, **d):
        acc.fail('%s' % what, pattern=pdesc, target=tdesc, is_query=is_query, **d)
        acc.outcomes['FAIL ' + what] += 1
    try:
        exp = ref_mappings(p, t)
        got = [frozenset(m.items()) for m in p.get_mapping(t, automorphism_filter=False, **kw)]
        acc.transitions += 1
        if len(got) != len(set(got)):
            bad('duplicate mappings (filter off)')
        elif set(got) != exp:
            bad('mapping set differs from reference (filter off)', got=len(got), expected=len(exp))
        gf = [frozenset(m.items()) for m in p.get_mapping(t, **kw)]
        acc.transitions += 1
        imgs = [frozenset(v for _, v in m) for m in gf]
        if len(imgs) != len(set(imgs)) or set(imgs) != {frozenset(v for _, v in m) for m in exp} or not set(gf) <= exp:
            bad('automorphism filter: not exactly one mapping per image set')
        acc.outcomes[(len(p), min(len(exp), 9))] += 1
        # operators
        acc.transitions += 1
        sub = bool(exp)
        if p.is_substructure(t) != sub or (p <= t) != sub or (t >= p) != sub:
            bad('is_substructure / <= / >= disagree with the mapping set')
        if not is_query:
            if (p < t) != (sub and len(p) < len(t)) or (t > p) != (sub and len(p) < len(t)):
                bad('< / > disagree with the mapping set')
            if p.is_equal(t) != (sub and len(p) == len(t)):
                bad('is_equal disagrees with the mapping set')
        if scopes:
            tn = list(t)
            for r in range(1, min(4, len(tn)) + 1):
                for sc in itertools.combinations(tn, r):
                    acc.transitions += 1
                    e2 = ref_mappings(p, t, set(sc))
                    g2 = [frozenset(m.items()) for m in p.get_mapping(t, automorphism_filter=False, searching_scope=list(sc), **kw)]
                    if len(g2) != len(set(g2)) or set(g2) != e2:
                        bad('searching_scope result differs from reference', scope=list(sc), got=len(g2), expected=len(e2))
                        return
    except Exception as e:
        bad('matcher raised %s' % type(e).__name__)


def build_p(spec):
    return M.to_chython(spec)


def union_spec(a, b):
    n = len(a['atoms'])
    return {'atoms': a['atoms'] + b['atoms'], 'bonds': a['bonds'] + [(x + n, y + n, o) for x, y, o in b['bonds']],
            'tag': a['tag'] + ' . ' + b['tag']}


def run_pairs(shard):
    k, nsh, tier = shard
    acc = Acc()
    pn, pk = (4, 1)
    tn, tk = (5, 1)
    pats = list(M.scope(pn, pk, elements=['N', 'O'], with_h=False, with_iso=False))
    two = [union_spec(pats[i], pats[j]) for i, j in ((1, 1), (1, 2), (2, 5), (5, 9), (3, 3), (1, 30))]
    pats = pats + two
    tstride = 1
    tars = tgt_specs(tn, tk, tstride, 0)
    tars += [union_spec(tars[i], tars[j]) for i, j in ((0, 1), (2, 2), (5, 3), (7, 7), (10, 2))]
    if tier == 'thorough':
        tars += tgt_specs(6, 1, 1, 0)
    pm = [(build_p(s), s['tag']) for s in pats]
    for ti, ts in enumerate(tars):
        if ti % nsh != k:
            continue
        t = build_p(ts)
        for pi, (p, ptag) in enumerate(pm):
            check_pair(acc, p, t, ptag, ts['tag'], scopes=(len(p) <= 3 and (ti + pi) % (2 if tier == 'quick' else 1) == 0))
        if ti < 2:
            acc.sample({'pattern': pats[7]['tag'], 'target': ts['tag']})
    return acc


def run_cut(shard):
    """patterns cut from the target itself: every connected induced subgraph; identity must be among the mappings; automorphisms"""
    k, nsh, tier = shard
    acc = Acc()
    tars = tgt_specs(5, 1, 1, 0) + (tgt_specs(6, 1, 4, 0) if tier == 'thorough' else [])
    tars += [union_spec(tars[3], tars[8]), union_spec(tars[2], tars[2])]
    for ti, ts in enumerate(tars):
        if ti % nsh != k:
            continue
        t = build_p(ts)
        tn = list(t)
        ta, tadj = graph_of(t)
        for r in range(1, len(tn) + 1):
            for sub in itertools.combinations(tn, r):
                s = set(sub)
                sadj = {n: [x for x in tadj[n] if x in s] for n in s}
                if len(cycles.components(sadj)) != 1:
                    continue
                try:
                    p = t.substructure(sub)
                except Exception as e:
                    acc.fail('substructure raised %s' % type(e).__name__, target=ts['tag'], atoms=list(sub))
                    continue
                check_pair(acc, p, t, 'cut %s' % (list(sub),), ts['tag'])
                ident = frozenset((x, x) for x in sub)
                if ident not in {frozenset(m.items()) for m in p.get_mapping(t, automorphism_filter=False)}:
                    acc.fail('cut pattern does not map onto itself', target=ts['tag'], atoms=list(sub), pattern='cut', is_query=False)
        # automorphisms
        acc.transitions += 1
        try:
            got = [frozenset(m.items()) for m in t.get_automorphism_mapping()]
            pc = comp_map(tadj)
            exp = {frozenset(m.items()) for m in iso.embeddings(ta, tadj, ta, tadj, lambda x, y: x == y and x.implicit_hydrogens == y.implicit_hydrogens,
                                                                  lambda x, y: x == y, pc)}
            # components may also be exchanged by an automorphism: reference over the whole graph with exact adjacency
            exp = {m for m in exp if any(a != b for a, b in m)}
            if len(cycles.components(tadj)) == 1:
                if set(got) != exp:
                    acc.fail('get_automorphism_mapping differs from reference', target=ts['tag'], got=len(set(got)), expected=len(exp), pattern='self', is_query=False)
                if t.is_automorphic() != bool(exp):
                    acc.fail('is_automorphic differs from reference', target=ts['tag'], pattern='self', is_query=False)
            else:
                # several components: the library enumerates products of automorphisms of the single components (components are never exchanged)
                cm = {}
                for ci_, comp_ in enumerate(cycles.components(tadj)):
                    for x_ in comp_:
                        cm[x_] = ci_
                exp_mc = {m for m in exp if all(cm[a] == cm[b] for a, b in m)}
                if any(len({b for _, b in m}) != len(m) for m in got):
                    acc.fail('get_automorphism_mapping returns a map that is not injective (several components)', target=ts['tag'], pattern='self', is_query=False)
                elif set(got) != exp_mc:
                    acc.fail('get_automorphism_mapping differs from the product of component automorphisms', target=ts['tag'], got=len(set(got)), expected=len(exp_mc), pattern='self', is_query=False)
        except Exception as e:
            acc.fail('automorphism raised %s' % type(e).__name__, target=ts['tag'], pattern='self', is_query=False)
    return acc


def run_queries(shard):
    from chython import smarts
    k, nsh, tier = shard
    acc = Acc()
    tars = tgt_specs(5, 1, 1, 0) + (tgt_specs(6, 1, 2, 0) if tier == 'thorough' else [])
    tars += [union_spec(tars[0], tars[4]), union_spec(tars[9], tars[9]), union_spec(tars[6], tars[1])]
    qs = [(smarts(s), s) for s in SMARTS]
    for ti, ts in enumerate(tars):
        if ti % nsh != k:
            continue
        t = build_p(ts)
        for qi, (q, s) in enumerate(qs):
            check_pair(acc, q, t, 'smarts ' + s, ts['tag'], scopes=(len(q) <= 3 and (ti + qi) % 3 == 0), is_query=True)
    acc.sample({'smarts': SMARTS[:6]})
    return acc


def run_multi(shard):
    """multi-component patterns x multi-component targets with different numbers of matches per component"""
    from chython import smiles
    k, nsh, tier = shard
    acc = Acc()
    ppool = ['C', 'O', 'N', 'CC', 'CO', 'C=O', 'CN']
    tpool = ['CCCC', 'OCCO', 'CCO', 'NCCN', 'CC(C)C', 'OC(O)O', 'C', 'CCN', 'C1CC1', 'OCC(O)CO']
    pats = ['.'.join(c) for r in (2, 3) for c in itertools.combinations_with_replacement(ppool, r)]
    tars = ['.'.join(c) for r in (2, 3) for c in itertools.combinations(tpool, r)]
    if tier == 'quick':
        tars = tars[::2]
    for ti, ts in enumerate(tars):
        if ti % nsh != k:
            continue
        t = smiles(ts)
        for pi, ps in enumerate(pats):
            if tier == 'quick' and ps.count('.') == 2 and (ti + pi) % 3:
                continue
            check_pair(acc, smiles(ps), t, 'multi ' + ps, 'multi ' + ts, scopes=False)
    acc.sample({'multi-component patterns': pats[:5], 'targets': tars[:5]})
    return acc


def plan(tier, seed):
    nsh = 64
    return [Stage('molecule patterns x targets', run_pairs, [(k, nsh, tier) for k in range(nsh)],
                  'patterns D(<=4,1)+two-component x targets D(<=5,1)%s+unions; filter on/off; operators; every scope of <=4 atoms on a fixed subset' % (' ' if tier == 'quick' else '+D(6,1)')),
            Stage('patterns cut from target', run_cut, [(k, nsh, tier) for k in range(nsh)],
                  'every connected induced subgraph of every target as pattern; identity mapping present; automorphism mappings vs reference'),
            Stage('multi-component patterns x targets', run_multi, [(k, nsh, tier) for k in range(nsh)], '2- and 3-component patterns over 7 fragments x unions of 2-3 of 10 molecules (unequal match counts per component)'),
            Stage('SMARTS queries x targets', run_queries, [(k, nsh, tier) for k in range(nsh)],
                  '%d SMARTS incl. ring closures, bond lists, two components x targets' % len(SMARTS))]


def replay(rec):
    # a replay re-runs the whole (small) stage family for the recorded pattern/target tags
    acc = Acc()
    tag = rec.get('target')
    from chython import smarts, smiles
    if tag and tag.startswith('multi '):
        check_pair(acc, smiles(rec['pattern'][6:]), smiles(tag[6:]), rec['pattern'], tag)
        return [f for f in acc.fails if f['key'] == rec['key']]
    specs = {s['tag']: s for s in M.scope(6, 1, elements=['N', 'O'], with_h=False, with_iso=False)}

    def find(tg):
        if ' . ' in tg:
            a, b = tg.split(' . ')
            return union_spec(specs[a], specs[b])
        return specs[tg]
    t = build_p(find(tag))
    pd = rec.get('pattern', '')
    if pd.startswith('smarts '):
        check_pair(acc, smarts(pd[7:]), t, pd, tag, scopes=True, is_query=True)
    elif pd.startswith('cut '):
        import ast
        check_pair(acc, t.substructure(ast.literal_eval(pd[4:])), t, pd, tag, scopes=True)
    elif pd in ('self', 'cut'):
        a2 = run_cut((0, 1, 'thorough'))
        return [f for f in a2.fails if f['key'] == rec['key'] and f.get('target') == tag]
    else:
        check_pair(acc, build_p(find(pd)), t, pd, tag, scopes=True)
    return [f for f in acc.fails if f['key'] == rec['key']]
