"""C04 -- implicit hydrogens and valence errors follow the element valence rules; formula/charge/mass are sums."""
import itertools

from ..core import Acc, Stage
from ..oracle import valence
from ..scope import molecules as M

META = {
    'technique': 'complete enumeration of centre environments (element x charge x radical x bond multisets) on the real valence code vs a re-derivation from the raw element tables, a hand-written textbook table and RDKit',
    'rule': 'one state per star (centre element, charge, radical, multiset of <=4 bonds of order 1-3 to H/C/N/O/F/S/Cl), plus whole molecules of D(n,k) and the corpus',
    'assumptions': ['oracle (a) reads only _common_valences/_valences_exceptions and follows the docstring of element.py',
                    'oracle (b) is the hand-written table in vf/oracle/valence.py, claimed only inside its uncontroversial domain',
                    'RDKit per-atom hydrogen counts are used only on corpus molecules both toolkits accept'],
}

CENTRES_Q = ['B', 'C', 'N', 'O', 'F', 'Si', 'P', 'S', 'Cl', 'As', 'Se', 'Br', 'I']
NEIGH = ['H', 'C', 'N', 'O', 'F', 'S', 'Cl']
BTYPES = [(o, s) for s in NEIGH for o in (1, 2, 3)]


def sums(m):
    """recompute formula, charge, mass, radical as plain sums from per-atom data"""
    from chython.periodictable import H
    hm = H().atomic_mass
    br = {}
    ch = 0
    mass = 0.0
    rad = False
    for _, a in m.atoms():
        br[a.atomic_symbol] = br.get(a.atomic_symbol, 0) + 1
        h = a.implicit_hydrogens or 0
        br['H'] = br.get('H', 0) + h
        ch += a.charge
        rad = rad or a.is_radical
        mass += a.atomic_mass + h * hm
    return br, ch, mass, rad


def check_sums(m):
    br, ch, mass, rad = sums(m)
    got = {k: v for k, v in m.brutto.items() if v}
    exp = {k: v for k, v in br.items() if v}
    if got != exp:
        return 'brutto is not the sum over atoms'
    if int(m) != ch or m.molecular_charge != ch:
        return 'molecular charge is not the sum over atoms'
    if abs(float(m) - mass) > 1e-6 or abs(m.molecular_mass - mass) > 1e-6:
        return 'molecular mass is not the sum over atoms'
    if m.is_radical != rad:
        return 'is_radical is not the disjunction over atoms'
    return None


def expected_h(m, n, s2z):
    a = m.atom(n)
    nb = [(b.order, m.atom(k).atomic_number) for k, b in m._bonds[n].items() if b.order != 8]
    return valence.rederive(a, a.charge, a.is_radical, nb, s2z)


def check_molecule(acc, m, tag, s2z, centre=None, textbook=False):
    def bad(what, **d):
        acc.fail(what, mol=tag, **d)
        acc.outcomes['FAIL ' + what.split(' (')[0]] += 1
    invalid = []
    for n, a in m.atoms():
        e = expected_h(m, n, s2z)
        if a.implicit_hydrogens != e:
            bad('implicit hydrogens differ from the element-table re-derivation', atom=n, got=a.implicit_hydrogens, expected=e)
            return
        if e is None:
            invalid.append(n)
    if sorted(m.check_valence()) != sorted(invalid):
        bad('check_valence() is not exactly the atoms without a valence state', got=sorted(m.check_valence()), expected=sorted(invalid))
    if textbook and centre is not None:
        a = m.atom(centre)
        nb = [(b.order, m.atom(k).atomic_number) for k, b in m._bonds[centre].items()]
        kind, h = valence.textbook(a.atomic_symbol, a.charge, a.is_radical, nb)
        if kind == 'H':
            if a.implicit_hydrogens != h:
                bad('implicit hydrogens differ from the textbook table', atom=centre, got=a.implicit_hydrogens, expected=h)
        else:
            acc.ood['outside textbook domain'] += 1
        lj = valence.ladder_judge(a.atomic_symbol, a.charge, a.is_radical, nb, a.implicit_hydrogens)
        if lj is False:
            bad('valence state outside the main-group ladder model (bond sum + hydrogens is not the lowest ladder state)', atom=centre, got=a.implicit_hydrogens)
        # explicit hydrogen counts: check_implicit(n, h) is true exactly for the admissible counts
        adm = valence.admissible_h(a, a.charge, a.is_radical, [(o, z) for o, z in nb if o != 8], s2z)
        got = {h for h in range(0, 7) if m.check_implicit(centre, h)}
        if got != {h for h in adm if h < 7}:
            bad('check_implicit() does not accept exactly the hydrogen counts for which the tables hold a state', atom=centre, got=sorted(got), expected=sorted(adm))
    if invalid:
        acc.ood['formula/mass undefined: an atom has no valence state'] += 1
    else:
        r = check_sums(m)
        if r:
            bad(r)


def run_stars(shard):
    from chython import MoleculeContainer
    from chython.periodictable import Element
    sym, charges = shard
    acc = Acc()
    s2z = {c.__name__: c.atomic_number.fget(None) for c in Element.__subclasses__()}
    cls = Element.from_symbol(sym)
    ncls = {s: Element.from_symbol(s) for s in NEIGH}
    for ch in charges:
        for rad in (False, True):
            for size in range(0, 5):
                for combo in itertools.combinations_with_replacement(BTYPES, size):
                    acc.states += 1
                    acc.transitions += 1
                    m = MoleculeContainer()
                    m.add_atom(cls(charge=ch, is_radical=rad), 1, _skip_calculation=True)
                    for i, (o, s) in enumerate(combo, 2):
                        m.add_atom(ncls[s](), i, _skip_calculation=True)
                        m.add_bond(1, i, o, _skip_calculation=True)
                    m.fix_structure()
                    tag = 'star %s charge=%d radical=%s bonds=%s' % (sym, ch, rad, list(combo))
                    check_molecule(acc, m, tag, s2z, centre=1, textbook=True)
                    acc.outcomes[(ch, rad, m.atom(1).implicit_hydrogens)] += 1
    acc.sample({'centre': sym, 'charges': list(charges), 'radical': [False, True], 'bond types': BTYPES[:4] + ['...'], 'multisets': 'all of size 0..4'})
    return acc


def run_exception_rows(shard):
    """one star per environment row of the exception tables of the ladder elements (up to 7 neighbours), every hydrogen deficit 0..row H: judged by the ladder model"""
    from chython import MoleculeContainer
    from chython.periodictable import Element
    sym, = shard
    acc = Acc()
    s2z = {c.__name__: c.atomic_number.fget(None) for c in Element.__subclasses__()}
    cls = Element.from_symbol(sym)
    rows = [r for r in cls()._valences_exceptions if r[3]]
    for ch, rad, h, env in rows:
        for extra_h in range(0, h + 1):
            acc.states += 1
            acc.transitions += 1
            combo = list(env) + [(1, 'H')] * extra_h
            m = MoleculeContainer()
            m.add_atom(cls(charge=ch, is_radical=rad), 1, _skip_calculation=True)
            for i, (o, s) in enumerate(combo, 2):
                m.add_atom(Element.from_symbol(s)(), i, _skip_calculation=True)
                m.add_bond(1, i, o, _skip_calculation=True)
            m.fix_structure()
            tag = 'star %s charge=%d radical=%s bonds=%s' % (sym, ch, rad, combo)
            check_molecule(acc, m, tag, s2z, centre=1, textbook=True)
            if m.atom(1).implicit_hydrogens is None:
                acc.fail('environment listed in the exception table has no valence state', mol=tag)
            acc.outcomes[(ch, rad, m.atom(1).implicit_hydrogens)] += 1
    acc.sample({'centre': sym, 'rows': len(rows)})
    return acc


def run_small(shard):
    from chython.periodictable import Element
    k, nsh, tier = shard
    acc = Acc()
    s2z = {c.__name__: c.atomic_number.fget(None) for c in Element.__subclasses__()}
    nmax, kk = (5, 2) if tier == 'quick' else (6, 2)
    for i, spec in enumerate(M.scope(nmax, kk, elements=M.ELEMENTS_T, shard=k, nshards=nsh)):
        acc.states += 1
        acc.transitions += 1
        m = M.to_chython(spec, skip=(i % 2 == 0))
        check_molecule(acc, m, spec['tag'], s2z)
        acc.outcomes[len(m.check_valence())] += 1
    return acc


def run_corpus(shard):
    from chython import smiles
    from chython.periodictable import Element
    from rdkit import Chem
    k, nsh, tier = shard
    acc = Acc()
    s2z = {c.__name__: c.atomic_number.fget(None) for c in Element.__subclasses__()}
    rows = M.corpus(stride=4 if tier == 'quick' else 1)
    for i, s in enumerate(rows):
        if i % nsh != k:
            continue
        acc.states += 1
        acc.transitions += 2
        m = smiles(s)
        arom_h = {n: a.implicit_hydrogens for n, a in m.atoms()}
        rd = Chem.MolFromSmiles(s)
        if rd is None or rd.GetNumAtoms() != len(m):
            acc.ood['rdkit rejects'] += 1
            continue
        rh = [a.GetTotalNumHs() for a in rd.GetAtoms()]
        # aromatic form as parsed: carbon atoms must already carry the right count (aromatic-carbon shortcut)
        for (n, a), h in zip(m.atoms(), rh):
            if a.atomic_number == 6 and a.implicit_hydrogens != h:
                acc.fail('aromatic-form carbon hydrogens differ from RDKit', mol=s, atom=n, got=a.implicit_hydrogens, expected=h)
                break
        m.kekule()
        for (n, a), h in zip(m.atoms(), rh):
            if a.implicit_hydrogens != h:
                acc.fail('Kekule-form hydrogens differ from RDKit', mol=s, atom=n, got=a.implicit_hydrogens, expected=h)
                break
        check_molecule(acc, m, s, s2z)
        acc.outcomes['corpus'] += 1
        if i < 2:
            acc.sample({'smiles': s})
    return acc


READ_CENTRES = ['B', 'C', 'N', 'O', 'F', 'Si', 'P', 'S', 'Cl', 'Se', 'Br', 'I']
READ_FRAMES = ['%s', 'C%s', 'C%sC', 'C=%s', 'C%s(C)C', 'C#%s', 'O=%s=O']


def read_texts():
    for sym in READ_CENTRES:
        for h in (None, 0, 1, 2, 3, 4):
            for ch in ('', '+', '-', '+2', '-2'):
                b = '[%s%s%s]' % (sym, '' if h is None else ('H%d' % h if h != 1 else 'H'), ch)
                for fi, fr in enumerate(READ_FRAMES):
                    t = fr % b
                    yield t
                    idx = 0 if fr.startswith('%') else 1
                    yield '%s |^1:%d|' % (t, idx)


def check_parsed(acc, text, s2z):
    """the molecule the SMILES reader delivers for a bracket atom: whatever state the reader decides on (it may re-guess the radical flag or replace an
    impossible hydrogen count), the atom must carry a hydrogen count for which its element / charge / radical flag / bonds have a valence state,
    or be reported by check_valence(); sums must be the sums"""
    from chython import smiles
    acc.transitions += 1
    try:
        m = smiles(text)
    except Exception:
        acc.ood['text rejected by the reader'] += 1
        return
    invalid = set(m.check_valence())
    for n, a in m.atoms():
        nb = [(b.order, m.atom(k).atomic_number) for k, b in m._bonds[n].items() if b.order != 8]
        adm = valence.admissible_h(a, a.charge, a.is_radical, nb, s2z)
        if a.implicit_hydrogens is None:
            if n not in invalid:
                acc.fail('parsed atom without hydrogen count is not reported by check_valence()', mol=text, atom=n, parsed=True)
                return
        elif a.implicit_hydrogens not in adm and n not in invalid:
            acc.fail('parsed atom carries a hydrogen count for which its element, charge, radical flag and bonds have no valence state', mol=text, atom=n, parsed=True,
                     got=[a.atomic_symbol, a.charge, a.is_radical, a.implicit_hydrogens], admissible=sorted(adm))
            return
    if not invalid and all(a.implicit_hydrogens is not None for _, a in m.atoms()):
        r = check_sums(m)
        if r:
            acc.fail(r + ' (parsed molecule)', mol=text, parsed=True)
            return
        # the same atoms and bonds assembled through the editing interface: where the parsed count is the default count the formula must agree
    acc.outcomes['parsed: radical' if m.is_radical else 'parsed: closed shell'] += 1


def run_parsed(shard):
    from chython.periodictable import Element
    k, nsh, tier = shard
    acc = Acc()
    s2z = {c.__name__: c.atomic_number.fget(None) for c in Element.__subclasses__()}
    for i, t in enumerate(read_texts()):
        if i % nsh != k:
            continue
        acc.states += 1
        check_parsed(acc, t, s2z)
    return acc


def plan(tier, seed):
    centres = CENTRES_Q
    st = [Stage('stars', run_stars, [(c, (ch,)) for c in centres for ch in (-2, -1, 0, 1, 2)],
                '13 centre elements x charge -2..2 x radical x every multiset of <=4 bonds (order 1-3) to H,C,N,O,F,S,Cl')]
    if tier == 'thorough':
        from chython.periodictable import Element  # noqa
        allsym = None
        st.append(Stage('stars all elements', run_stars_all, [(z,) for z in range(1, 119)],
                        'all 118 centre elements x charge -2..2 x radical x multisets of <=3 bonds'))
    st.append(Stage('exception-table environments', run_exception_rows, [(s,) for s in sorted(valence.LADDER_GROUP)],
                    'every environment row of the exception tables of 15 main-group elements (up to 7 neighbours) x hydrogen deficit: ladder model, re-derivation, check_implicit'))
    st.append(Stage('whole molecules D(n,k)', run_small, [(k, 64, tier) for k in range(64)],
                    'D(<=%d,2) with 11 hetero elements, both construction paths' % (5 if tier == 'quick' else 6)))
    st.append(Stage('corpus vs RDKit', run_corpus, [(k, 32, tier) for k in range(32)], 'lipophilicity.csv stride %d: per-atom H vs RDKit (aromatic carbons as parsed, all atoms after kekule)' % (4 if tier == 'quick' else 1)))
    st.append(Stage('bracket atoms as delivered by the SMILES reader', run_parsed, [(k, 16, tier) for k in range(16)],
                    '12 centre elements x bracket hydrogens {none,0..4} x charge -2..2 x 7 frames x {plain, radical mark}: the state the reader decides on has a valence state for the hydrogen count it carries'))
    return st


def run_stars_all(shard):
    from chython import MoleculeContainer
    from chython.periodictable import Element
    z, = shard
    acc = Acc()
    s2z = {c.__name__: c.atomic_number.fget(None) for c in Element.__subclasses__()}
    cls = Element.from_atomic_number(z)
    ncls = {s: Element.from_symbol(s) for s in NEIGH}
    for ch in (-2, -1, 0, 1, 2):
        for rad in (False, True):
            for size in range(0, 4):
                for combo in itertools.combinations_with_replacement(BTYPES, size):
                    acc.states += 1
                    acc.transitions += 1
                    m = MoleculeContainer()
                    m.add_atom(cls(charge=ch, is_radical=rad), 1, _skip_calculation=True)
                    for i, (o, s) in enumerate(combo, 2):
                        m.add_atom(ncls[s](), i, _skip_calculation=True)
                        m.add_bond(1, i, o, _skip_calculation=True)
                    m.fix_structure()
                    check_molecule(acc, m, 'star %s charge=%d radical=%s bonds=%s' % (cls.__name__, ch, rad, list(combo)), s2z, centre=1)
                    acc.outcomes[(ch, rad, m.atom(1).implicit_hydrogens)] += 1
    return acc


def replay(rec):
    import ast
    import re
    from chython import MoleculeContainer, smiles
    from chython.periodictable import Element
    acc = Acc()
    s2z = {c.__name__: c.atomic_number.fget(None) for c in Element.__subclasses__()}
    tag = rec['mol']
    if rec.get('parsed'):
        check_parsed(acc, tag, s2z)
        return [f for f in acc.fails if f['key'] == rec['key']]
    mt = re.match(r'star (\w+) charge=(-?\d+) radical=(\w+) bonds=(.*)$', tag)
    if mt:
        m = MoleculeContainer()
        m.add_atom(Element.from_symbol(mt.group(1))(charge=int(mt.group(2)), is_radical=mt.group(3) == 'True'), 1, _skip_calculation=True)
        for i, (o, s) in enumerate(ast.literal_eval(mt.group(4)), 2):
            m.add_atom(s, i, _skip_calculation=True)
            m.add_bond(1, i, o, _skip_calculation=True)
        m.fix_structure()
        check_molecule(acc, m, tag, s2z, centre=1, textbook=True)
    elif tag.startswith('n'):
        specs = {s['tag']: s for s in M.scope(6, 2, elements=M.ELEMENTS_T)}
        check_molecule(acc, M.to_chython(specs[tag]), tag, s2z)
    else:
        a2 = Acc()
        rows = [tag]
        import vf.scope.molecules as MM
        orig = MM.corpus
        MM.corpus = lambda **kw: rows
        try:
            a2 = run_corpus((0, 1, 'thorough'))
        finally:
            MM.corpus = orig
        return [f for f in a2.fails if f['key'] == rec['key']]
    return [f for f in acc.fails if f['key'] == rec['key']]
