"""C16 -- template application edits exactly what the template names (independent graph-edit model)."""
import collections
import functools
import itertools

from ..core import Acc, Stage
from ..oracle import cycles
from ..scope import molecules as M, graphs

META = {
    'technique': 'bounded exhaustive enumeration of synthetic templates (one per patcher branch and pairs of branches) x molecules x matches on the real Transformer/Reactor, vs an independent graph-edit model; built-in templates checked by invariants',
    'rule': 'one state per (template, molecule[, numbering, reactant order]); expected product = plain-graph edit model applied to every match',
    'assumptions': ['matches are taken from the library matcher (its correctness is C07/C08); the model decides what each match must produce',
                    'hydrogen counts of products are not modelled (C04); valence validity is required for built-in templates on valence-valid input'],
}

# (pattern, replacement, description)
TEMPLATES = [
    ('[C:1][O:2]', '[A:1][A:2]', 'identity'),
    ('[C:1]Br', '[A:1]', 'delete atom'),
    ('[C:1]Br', '[A:1][O;M]', 'new atom'),
    ('[C:1]Br', '[A:1][N;M][C;M]', 'two new atoms'),
    ('[C:1][O:2]', '[A:1][S:2]', 'element change'),
    ('[C:1][N;D1:2]', '[A:1][A+:2]', 'charge set'),
    ('[C:1][O;D1:2]', '[A:1][A:2] |^1:1|', 'radical set'),
    ('[C:1]-[C:2]', '[A:1]=[A:2]', 'bond order change'),
    ('[C:1]=[C:2]', '[A:1]-[A:2]', 'bond order change down'),
    ('[C;M][C:1]Br', '[A:1]', 'masked neighbour kept'),
    ('[C:1]-[O:2]', '[A:1]', 'delete with detached fragment'),
    ('[C;D2;M]-[O:2]-[C:1]', '[A:1]', 'masked atom next to deleted atom'),
    ('[C:1][O:2][C:3]', '[A:1].[A:3]', 'cleave keeping both ends'),
    ('[C:1].[N:2]', '[A:1][A:2]', 'bond formation between components'),
    ('[C:1]([O:2])[N:3]', '[A:1]([A:3])[A:2]', 'reordered replacement'),
    ('[C:1][C:2][Cl:3]', '[A:1][A:2]', 'delete terminal of chain'),
    ('[C:1][Cl,Br:2]', '[A:1][I:2]', 'list element replaced'),
    ('[N:1][C:2]=[O:3]', '[A:1][A:2]=[S:3]', 'three atoms one changed'),
    ('[C:1][C:2]Br', '[A:1][A:2][O;M]', 'two named carbons, new atom'),
    ('[C:1][C:2][Br:3]', '[A:1][A:2][A:3]', 'identity on three atoms'),
    ('[C:1]=[C:2][C:3]Br', '[A:1]=[A:2][A:3]', 'named double bond kept'),
]


def plain(m):
    atoms = {n: [a.atomic_symbol, a.isotope, a.charge, a.is_radical] for n, a in m.atoms()}
    bonds = {frozenset((n, k)): b.order for n, k, b in m.bonds()}
    return atoms, bonds


def model(m, pattern, repl, mapping):
    """expected product of applying (pattern >> repl) at `mapping` (pattern atom -> molecule atom)"""
    from chython.periodictable.base.query import AnyElement
    atoms, bonds = plain(m)
    adj = {n: set() for n in atoms}
    for b in bonds:
        a, c = tuple(b)
        adj[a].add(c)
        adj[c].add(a)
    repl_atoms = set(repl)
    to_delete = {mapping[x] for x, a in pattern.atoms() if not a.masked and x not in repl_atoms}
    remain = set(mapping.values()) - to_delete
    # detached fragments: pieces hanging on a deleted atom that have no path (avoiding deleted atoms) to a remaining matched atom
    deleted = set(to_delete)
    for d in to_delete:
        for nb in adj[d]:
            if nb in to_delete or nb in remain:
                continue
            seen = {nb}
            st = [nb]
            reach = False
            while st:
                x = st.pop()
                for y in adj[x]:
                    if y in to_delete or y in seen:
                        continue
                    if y in remain:
                        reach = True
                    seen.add(y)
                    st.append(y)
            if not reach and not (seen & remain):
                deleted |= seen
    mp = dict(mapping)
    nxt = max(atoms) + 1
    new_atoms = {}
    for n, ra in repl.atoms():
        if n in mp:
            src = atoms[mp[n]]
            if isinstance(ra, AnyElement):
                new_atoms[mp[n]] = [src[0], src[1], ra.charge, ra.is_radical]
            else:
                new_atoms[mp[n]] = [ra.atomic_symbol, ra.isotope, ra.charge, ra.is_radical]
        else:
            mp[n] = nxt
            new_atoms[nxt] = [ra.atomic_symbol, ra.isotope, ra.charge, ra.is_radical]
            nxt += 1
    patched = set(new_atoms)
    out_atoms = dict(new_atoms)
    for n, a in atoms.items():
        if n not in patched and n not in deleted:
            out_atoms[n] = a
    out_bonds = {}
    for n, k, b in repl.bonds():
        out_bonds[frozenset((mp[n], mp[k]))] = b.order[0] if isinstance(b.order, tuple) else int(b)
    for bd, o in bonds.items():
        a, c = tuple(bd)
        if a in deleted or c in deleted:
            continue
        if a in patched and c in patched:
            continue
        out_bonds[bd] = o
    return out_atoms, out_bonds


def product_plain(p):
    atoms = {n: [a.atomic_symbol, a.isotope, a.charge, a.is_radical] for n, a in p.atoms()}
    bonds = {frozenset((n, k)): b.order for n, k, b in p.bonds()}
    return atoms, bonds


def stereo_untouched(m, p, touched):
    """labels of tetrahedral centres whose neighbour set is unchanged and that are not named by the template must keep their configuration"""
    for n, a in m.atoms():
        if a.stereo is None or n in touched or n not in p._atoms:
            continue
        if n not in m.stereogenic_tetrahedrons:
            continue
        if set(m._bonds[n]) != set(p._bonds[n]) or any(x in touched for x in m._bonds[n]):
            continue
        if p.atom(n).stereo is None:
            if n not in p.chiral_tetrahedrons:
                continue   # the centre is no longer stereogenic in the product (e.g. its 1,4-partner in the ring became planar): the label has to go
            return 'stereo label of an untouched centre lost'
        env = sorted(x for x in m._bonds[n] if m.atom(x).atomic_number != 1)
        if m._translate_tetrahedron_sign(n, env) != p._translate_tetrahedron_sign(n, env):
            return 'configuration of an untouched centre changed'
    # double bonds: both ends and all four substituent positions survive with the same neighbours and the bond stays double -> same label, same geometry
    for a, b, bd in m.bonds():
        if bd.stereo is None or bd.order != 2:
            continue
        if a not in p._atoms or b not in p._atoms or b not in p._bonds[a] or p._bonds[a][b].order != 2:
            continue
        if set(m._bonds[a]) != set(p._bonds[a]) or set(m._bonds[b]) != set(p._bonds[b]):
            continue
        if any(m._bonds[x][y].order != p._bonds[x][y].order for x in (a, b) for y in m._bonds[x]):
            continue
        if any(m.atom(y).atomic_symbol != p.atom(y).atomic_symbol for x in (a, b) for y in m._bonds[x]):
            continue
        pb = p._bonds[a][b]
        if pb.stereo is None:
            ts = p._stereo_cis_trans_terminals.get(a)
            if ts is not None and (ts in p.chiral_cis_trans or ts[::-1] in p.chiral_cis_trans):
                return 'cis/trans label of an unchanged double bond lost'
            continue
        n1 = min(x for x in m._bonds[a] if x != b)
        n2 = min(x for x in m._bonds[b] if x != a)
        try:
            if m._translate_cis_trans_sign(a, b, n1, n2) != p._translate_cis_trans_sign(a, b, n1, n2):
                return 'geometry of an unchanged double bond changed'
        except KeyError:
            continue
    return None


MOLS = ['CCO', 'CCBr', 'BrCCBr', 'CC(Br)CO', 'COC', 'CCOCC', 'CC(O)N', 'CCN', 'C=CCO', 'CC(=O)N', 'NC(C)=O', 'CCCCl', 'ClCCBr', 'C[C@H](OC)CBr', 'C[C@H](N)CO', 'OCC1CC1', 'C1COCC1', 'CCO.CN',
        'BrC(Br)C', 'CC(C)(C)O', 'OCCO', 'c1ccccc1CBr', 'NCCO', 'C/C=C/CBr', 'CC(N)=O.CO', 'CCC(Cl)CC', 'N[C@@H](C)C(=O)O', 'O=C(N)c1ccccc1', 'CNC(C)=O', 'COC(C)OC',
        'BrC/C=C/C', 'C/C=C\\CBr', 'BrC/C=C\\C', 'C/C=C/C(Br)C', 'C/C(=C\\C)CBr', 'C/C=C/C=C/CBr', 'C[C@H](F)/C=C/CBr',
        # labelled centres the template does not name, sitting where the text closes / opens a ring or two rings (stored neighbour order differs from the string order)
        'C1CCCO[C@@H]1CBr', 'BrC[C@H]1CCCCO1', 'OC[C@H]1O[C@H](O)[C@H](O)[C@@H](O)[C@@H]1O', 'C1C[C@@]2(CBr)CC[C@H]1C2', 'BrC[C@@]12CC[C@@H](C1)CO2', 'C[C@]12CCC(CBr)[C@@H]1C2', 'OC1CC[C@@H]2C[C@H]1CO2',
        # labelled allenes the templates leave alone (added after seed C16-h1)
        'CC=[C@]=CCBr', 'BrCC=[C@@]=CC', 'CC=[C@]=C(C)CO', 'C[C@H](CBr)C=[C@]=CC']


def run_transformer(shard):
    from chython import smiles, smarts, Transformer
    k, nsh, tier = shard
    acc = Acc()
    mols = list(MOLS)
    if tier == 'thorough':
        mols += M.corpus(stride=20)
    for ti, (pat, rep, desc) in enumerate(TEMPLATES):
        if ti % nsh != k:
            continue
        try:
            pattern, repl = smarts(pat), smarts(rep)
            tr = Transformer(pattern, repl, fix_aromatic_rings=False)
            tr_all = Transformer(pattern, repl, automorphism_filter=False, fix_aromatic_rings=False)
        except Exception as e:
            acc.fail('template construction raised %s :: %s' % (type(e).__name__, desc), template=[pat, rep])
            continue
        for s in mols:
            try:
                m0 = smiles(s)
                if any(b.order == 4 for *_, b in m0.bonds()):
                    m0.kekule()
            except Exception:
                continue
            nums = list(m0)
            for variant, mp_ in (('as parsed', None), ('reversed numbers', dict(zip(nums, nums[::-1]))), ('shifted numbers', {n: n + 17 for n in nums})):
                m = m0.copy()
                if mp_:
                    if variant == 'shifted numbers':
                        m.remap({n: n + 100 for n in nums})
                        m.remap({n + 100: n + 17 for n in nums})
                    else:
                        m.remap({n: n + 100 for n in nums})
                        m.remap({n + 100: mp_[n] for n in nums})
                acc.states += 1
                tag = '%s | %s >> %s | %s | %s' % (desc, pat, rep, s, variant)

                def bad(what, **d):
                    acc.fail('%s :: %s' % (what, desc), case=tag, **d)
                    acc.outcomes['FAIL ' + what] += 1
                try:
                    matches = [dict(x) for x in pattern.get_mapping(m, automorphism_filter=False, _cython=False)]
                    prods = list(tr_all(m))
                    prods_f = list(tr(m))
                except Exception as e:
                    bad('template application raised %s' % type(e).__name__)
                    continue
                acc.transitions += len(matches) + 2
                if len(prods) != len(matches):
                    bad('number of products differs from the number of matches', got=len(prods), expected=len(matches))
                    continue
                if len(prods_f) != len({frozenset(x.values()) for x in matches}):
                    bad('number of products differs from the number of distinct matches (automorphism filter)', got=len(prods_f), expected=len({frozenset(x.values()) for x in matches}))
                for mapping, p in zip(matches, prods):
                    exp = model(m, pattern, repl, mapping)
                    got = product_plain(p)
                    if got[0] != exp[0]:
                        extra = sorted(set(got[0]) - set(exp[0]))
                        missing = sorted(set(exp[0]) - set(got[0]))
                        bad('product atoms differ from the edit model', mapping=mapping, extra=extra, missing=missing, got=str(p))
                        break
                    if got[1] != exp[1]:
                        bad('product bonds differ from the edit model', mapping=mapping, got=str(p))
                        break
                    if len(set(p)) != len(list(p)):
                        bad('duplicate atom numbers in a product')
                        break
                    r = stereo_untouched(m, p, set(mapping.values()))
                    if r:
                        bad(r, mapping=mapping, got=str(p))
                        break
                    if desc == 'identity' and str(p) != str(m):
                        bad('identity template does not return the input', got=str(p), expected=str(m))
                        break
                acc.outcomes[(desc, len(matches) > 0)] += 1
        acc.sample({'template': [pat, rep, desc], 'molecules': len(mols)})
    return acc


REACTIONS = [
    (['[C:1](=[O:2])[O;D1:3]', '[N;D1:4][C:5]'], ['[A:1](=[A:2])[A:4][A:5]'], 'amide formation'),
    (['[C:1][Br:9]', '[O;D1:2][C:3]'], ['[A:1][A:2][A:3]'], 'ether formation'),
    (['[C:1]=[O:2]', '[N;D1:3]'], ['[A:1]=[A:3]', '[O:2]'], 'two products'),
    (['[C:1][Br:9]', '[N;D1:2]'], ['[A:1][A:2][C:7](=[O:8])'], 'new atoms in product'),
]
RMOLS = [('CC(=O)O', 'NCC'), ('CCBr', 'OCC'), ('CC=O', 'NC'), ('OC(=O)CC(=O)O', 'NCCN'), ('BrCCBr', 'OCCO'), ('CCBr', 'NCC'),
         # several non-equivalent sites on both sides, different numbers of sites (2x3, 3x2, 2x4, 3x4)
         ('OC(=O)CCC(C)C(O)=O', 'NCC(N)CCCN'), ('OC(=O)CC(C(O)=O)CCC(C)C(O)=O', 'NCC(C)CCN'), ('BrCC(C)CCBr', 'OCC(O)CCCO'), ('BrCC(Br)CCCBr', 'OCC(C)CCO'),
         ('CC(=O)CC=O', 'NCC(N)CCCN'), ('OC(=O)CCC(C)C(O)=O', 'NCC(N)CC(C)(N)CCCN'), ('BrCC(Br)CCCBr', 'NCC(N)CC(C)(N)CCCN')]
SPECT = ['CCCCCC', 'c1ccccc1', 'O', 'ClCCl']


def run_reactor(shard):
    from chython import smiles, smarts, Reactor
    k, nsh, tier = shard
    acc = Acc()
    for ri, (pats, prods, desc) in enumerate(REACTIONS):
        if ri % nsh != k:
            continue
        for one_shot in (True, False):
            try:
                rx = Reactor(tuple(smarts(x) for x in pats), tuple(smarts(x) for x in prods), one_shot=one_shot, polymerise_limit=3)
            except Exception as e:
                acc.fail('reactor construction raised %s :: %s' % (type(e).__name__, desc))
                continue
            for (a, b) in RMOLS:
                for spect in [None] + SPECT:
                    base = [smiles(a), smiles(b)] + ([smiles(spect)] if spect else [])   # every molecule numbered from 1: colliding numbers
                    ref = None
                    orders = list(itertools.permutations(range(len(base))))
                    for oi, order in enumerate(orders):
                        for renum in (False, True):
                            acc.states += 1
                            mols = [base[i].copy() for i in order]
                            if renum:
                                for j, mm in enumerate(mols):
                                    ns = list(mm)
                                    mm.remap({n: n + 300 for n in ns})
                                    mm.remap({n + 300: x for n, x in zip(ns, ns[::-1])})
                            tag = '%s | %s + %s + %s | order %s renum %s one_shot %s' % (desc, a, b, spect, list(order), renum, one_shot)

                            def bad(what, **d):
                                acc.fail('%s :: %s' % (what, desc), case=tag, **d)
                                acc.outcomes['FAIL ' + what] += 1
                            try:
                                rs = list(itertools.islice(rx(*mols), 40))
                            except Exception as e:
                                bad('reactor raised %s' % type(e).__name__)
                                continue
                            acc.transitions += 1 + len(rs)
                            sig = set()
                            for r in rs:
                                nums = [n for mm in r.products for n in mm]
                                if len(nums) != len(set(nums)):
                                    bad('duplicate atom numbers among the products of a reaction', got=str(r))
                                    break
                                rn = [n for mm in r.reactants for n in mm]
                                if len(rn) != len(set(rn)):
                                    bad('duplicate atom numbers among the reactants of a reaction', got=str(r))
                                    break
                                # spectator unchanged and present
                                if spect and str(smiles(spect)) not in {str(mm) for mm in r.products}:
                                    bad('spectator molecule changed or lost', got=str(r))
                                    break
                                if any(mm.check_valence() for mm in r.products):
                                    bad('product with a valence error', got=str(r))
                                    break
                                sig.add(tuple(sorted(str(mm) for mm in r.products)))
                            if ref is None:
                                ref = sig
                            elif sig != ref:
                                bad('product set depends on reactant order or numbering', got=sorted(map(list, sig))[:3], expected=sorted(map(list, ref))[:3])
                    acc.outcomes[(desc, bool(ref))] += 1
        acc.sample({'reaction': [pats, prods, desc]})
    return acc


def run_builtin(shard):
    """built-in deprotection and prepared-reaction templates: invariants only"""
    from chython import smiles
    k, nsh, tier = shard
    acc = Acc()
    from chython.reactor import deprotection
    names = [n for n in dir(deprotection) if not n.startswith('_') and n not in ('apply_all',)]
    mols = ['CC(C)(C)OC(=O)NCC', 'CC(=O)OCC', 'COC(=O)c1ccccc1', 'C[Si](C)(C)OCC', 'CC(C)(C)[Si](C)(C)OCCO', 'O=C(OCc1ccccc1)NCC', 'CCOC(C)=O', 'COCOC', 'CC1(C)OCC(CO)O1',
            'CC(=O)Nc1ccccc1', 'CCN(C(=O)OC(C)(C)C)CC', 'CCO', 'c1ccccc1COCC', 'CC(=O)OCCOC(C)=O', 'CCC[Si](C)(C)OCC']
    if tier == 'thorough':
        mols += M.corpus(stride=40)
    for mi, s in enumerate(mols):
        if mi % nsh != k:
            continue
        try:
            m = smiles(s)
        except Exception:
            continue
        valid = not m.check_valence()
        ref = {}
        nums = list(m)
        for variant in ('as parsed', 'reversed'):
            mm = m.copy()
            if variant == 'reversed':
                mm.remap({n: n + 500 for n in nums})
                mm.remap({n + 500: x for n, x in zip(nums, nums[::-1])})
            for name in names + ['apply_all']:
                acc.states += 1
                acc.transitions += 1
                tag = 'deprotection.%s | %s | %s' % (name, s, variant)
                try:
                    f = getattr(deprotection, name)
                    if not callable(f):
                        continue
                    p = f(mm.copy())
                except Exception as e:
                    acc.fail('built-in template raised %s :: deprotection.%s' % (type(e).__name__, name), case=tag)
                    continue
                if p is None or not hasattr(p, 'atoms'):
                    continue
                if len(set(p)) != len(list(p)):
                    acc.fail('duplicate atom numbers in a product :: deprotection.%s' % name, case=tag)
                if valid and p.check_valence():
                    acc.fail('product with a valence error :: deprotection.%s' % name, case=tag, got=format(p, 'h'))
                # atoms that survive keep element/charge (frame condition on survivors that are not part of any changed bond)
                key = (name,)
                sig = str(p)
                if key in ref and ref[key] != sig:
                    # canonical strings are not unique on pseudo-asymmetric centres (C01 exclusion i): RDKit decides whether the two strings are one molecule
                    from rdkit import Chem
                    from ..oracle import rdk
                    ra, rb = Chem.MolFromSmiles(sig), Chem.MolFromSmiles(ref[key])
                    if ra is not None and rb is not None and rdk.same(ra, rb):
                        acc.ood['canonical string not unique (C01 exclusion i), RDKit proves identity'] += 1
                    else:
                        acc.fail('product depends on atom numbering :: deprotection.%s' % name, case=tag, got=sig, expected=ref[key])
                ref.setdefault(key, sig)
                acc.outcomes[(name, sig != str(m))] += 1
    acc.sample({'built-in': names[:6], 'molecules': mols[:4]})
    return acc


# ---------------------------------------------------------------------------------------------------------------
# prepared reaction collections (chython.reactor.reactions / chython.reactor.retro) and multi-reactant Reactor vs the edit model
# ---------------------------------------------------------------------------------------------------------------
POOL_FWD = ['CC(=O)O', 'OC(=O)c1ccccc1', 'OC(=O)CC(=O)O', 'C[C@H](N)C(=O)O', 'OC=O',
            'NCC', 'Nc1ccccc1', 'CNC', 'C1CCNCC1', 'CNc1ccccc1', 'NCCN', 'C1COCCN1', 'CNOC', 'N(c1ccccc1)c1ccccc1', 'CC(=O)NNC',
            'Brc1ccccc1', 'Clc1ccncc1', 'Ic1ccc(C)cc1', 'Brc1ccc(Br)cc1', 'BrC=C', 'FS(=O)(=O)Oc1ccccc1', 'O=S(=O)(Oc1ccccc1)C(F)(F)F',
            'OB(O)c1ccccc1', 'CC1(C)OB(OC1(C)C)c1ccccc1', 'OB(O)C=C', 'F[B-](F)(F)c1ccccc1', 'OB(O)C1CC1', 'OB(O)CC',
            'C#CC', 'C#Cc1ccccc1', 'C#C[Si](C)(C)C', 'C#C',
            'OCC', 'Oc1ccccc1', 'OC(C)C', 'OCc1ccccc1', 'C[C@H](O)CC',
            'CS(=O)(=O)Cl', 'Cc1ccc(cc1)S(Cl)(=O)=O', 'CS(F)(=O)=O',
            'CN=C=O', 'O=C=Nc1ccccc1', 'CN=C=S',
            'CC=O', 'CC(C)=O', 'O=Cc1ccccc1', 'O=C1CCCCC1', 'C[C@H](C=O)CC',
            'CC(=O)Cl', 'OB(O)C#CC', 'CCBr', 'ClCC', 'C1COCN1', 'C1COCNC1']
POOL_RETRO = ['CC(=O)NCC', 'CC(=O)Nc1ccccc1', 'CC(=O)N(C)C', 'O=C(c1ccccc1)N1CCCCC1', 'c1ccccc1Nc1ccccc1', 'CN(C)c1ccccc1', 'c1ccc(cc1)N1CCOCC1', 'CCNc1ccncc1',
              'COc1ccccc1', 'CC(C)Oc1ccccc1', 'CC(=O)OCC', 'CC(=O)Oc1ccccc1', 'CCOC(=O)c1ccccc1', 'C[C@H](CC)OC(C)=O',
              'CC#Cc1ccccc1', 'c1ccccc1C#Cc1ccccc1', 'C=CC#CC', 'C[Si](C)(C)C#Cc1ccccc1',
              'c1ccccc1-c1ccccc1', 'Cc1ccc(cc1)-c1ccncc1', 'C=Cc1ccccc1', 'CCc1ccccc1', 'c1ccccc1C1CC1', 'C=CC=C', 'CC(=O)N[C@@H](C)C(=O)NC', 'CC(=O)N=C(C)C', 'CC#CC(C)=O']


def _plain_of(mols):
    atoms, bonds = {}, {}
    for m in mols:
        a, b = plain(m)
        atoms.update(a)
        bonds.update(b)
    return atoms, bonds


def _union(mols):
    u = mols[0].copy()
    for m in mols[1:]:
        u = u | m
    return u


def _build_plain(atoms, bonds):
    from chython import MoleculeContainer
    from chython.periodictable import Element
    m = MoleculeContainer()
    for n, (sym, iso, ch, rad) in sorted(atoms.items()):
        m.add_atom(Element.from_symbol(sym)(isotope=iso, charge=ch, is_radical=rad), n)
    for bd, o in bonds.items():
        a, c = tuple(bd)
        m.add_bond(a, c, o)
    return m


def _norm_str(atoms, bonds):
    """canonical text of a plain graph after the documented aromatic-ring normalisation of reactor products"""
    m = _build_plain(atoms, bonds)
    try:
        if any(o == 4 for o in bonds.values()):
            m.kekule()
        m.thiele()
    except Exception:
        pass
    return format(m, 'h')


def reactor_vs_model(rx, mols, acc, tag, desc, limit=60):
    """one multi-reactant Reactor call, one_shot mode, reactants carrying disjoint numbers: every reported reaction is the edit model applied to one
    combination of matches of one assignment of molecules to patterns, and every such combination is reported (as a set of canonical graphs)"""
    k = len(rx._patterns)

    def bad(what, **d):
        acc.fail('%s :: %s' % (what, desc), case=tag, **d)
        acc.outcomes['FAIL ' + what] += 1
    try:
        rs = list(itertools.islice(rx(*[m.copy() for m in mols]), limit + 1))
    except Exception as e:
        bad('reactor raised %s' % type(e).__name__)
        return None
    if len(rs) > limit:
        acc.caps['reactions per call capped at %d' % limit] += 1
        return None
    pattern = functools.reduce(lambda a, b: a | b, rx._patterns)
    repl = functools.reduce(lambda a, b: a | b, rx._products)
    expected = {}
    for chosen in itertools.permutations(range(len(mols)), k):
        ch = [mols[i] for i in chosen]
        ign = [mols[i] for i in range(len(mols)) if i not in chosen]
        maps = [[dict(x) for x in p.get_mapping(m, automorphism_filter=rx._automorphism_filter, _cython=False)] for p, m in zip(rx._patterns, ch)]
        if not all(maps):
            continue
        u = _union(ch)
        for combo in itertools.product(*maps):
            mapping = {}
            for c in combo:
                mapping.update(c)
            ea, eb = model(u, pattern, repl, mapping)
            ia, ib = _plain_of(ign)
            ea = dict(ea)
            ea.update(ia)
            eb = dict(eb)
            eb.update(ib)
            old = set(plain(u)[0]) | set(ia)
            expected.setdefault(_norm_str(ea, eb), (ea, eb, old, mapping))
    got = {}
    for r in rs:
        nums = [n for mm in r.products for n in mm]
        if len(nums) != len(set(nums)):
            bad('duplicate atom numbers among the products of a reaction', got=str(r))
            return None
        pa, pb = _plain_of(r.products)
        got.setdefault(_norm_str(pa, pb), (pa, pb, r))
    acc.transitions += 1 + len(expected)
    if set(got) != set(expected):
        extra = sorted(set(got) - set(expected))[:3]
        missing = sorted(set(expected) - set(got))[:3]
        bad('reported reactions differ from the edit model applied to every combination of matches', extra=extra, missing=missing)
        return None
    for key, (pa, pb, r) in got.items():
        ea, eb, old, mapping = expected[key]
        # frame condition with numbers: atoms that existed before and survive keep their numbers and attributes; bonds between them as modelled
        surv = set(ea) & old
        if {n: pa.get(n) for n in surv} != {n: ea[n] for n in surv}:
            d = sorted(n for n in surv if pa.get(n) != ea[n])[:4]
            bad('surviving atoms changed number or attributes', atoms=d, got=str(r))
            return None
        arom = any(o == 4 for o in eb.values()) or any(o == 4 for o in pb.values())
        if not arom:
            eb_old = {b: o for b, o in eb.items() if b <= surv}
            pb_old = {b: o for b, o in pb.items() if b <= surv}
            if eb_old != pb_old:
                bad('bonds between surviving atoms differ from the edit model', got=str(r))
                return None
        if any(mm.check_valence() for mm in r.products) and not any(m.check_valence() for m in mols):
            bad('product with a valence error', got=str(r))
            return None
        u_all = _union(list(mols))
        for mm in r.products:
            rr = stereo_untouched(u_all, mm, set(mapping.values()))
            if rr:
                bad(rr, got=str(r))
                return None
    return set(got)


def _disjoint(smis, offset=0):
    from chython import smiles
    out = []
    base = offset
    for s in smis:
        m = smiles(s)
        nums = list(m)
        m.remap({n: n + 5000 for n in nums})
        m.remap({n + 5000: base + i + 1 for i, n in enumerate(nums)})
        base += len(nums) + 3     # gaps between molecules
        out.append(m)
    return out


def run_prepared(shard):
    from chython import smiles
    kind, name, tier = shard
    acc = Acc()
    if kind == 'fwd':
        from chython.reactor import reactions
        pr = getattr(reactions, name)
        reactors = list(pr.rxn_os)
        pool = POOL_FWD
    elif kind == 'retro':
        from chython.reactor import retro
        pr = getattr(retro, name)
        reactors = list(pr.rxn)
        pool = POOL_RETRO
    fired = collections.Counter()
    for ri, rx in enumerate(reactors):
        k = len(rx._patterns)
        desc = '%s.%s[%d]' % ('reactions' if kind == 'fwd' else 'retro', name, ri)
        # which pool molecules can match which pattern at all (pre-filter; pairs in which both patterns match are all enumerated)
        cand = []
        for p in rx._patterns:
            cs = []
            for s in pool:
                try:
                    m = smiles(s)
                except Exception:
                    continue
                if next(p.get_mapping(m, _cython=False), None) is not None:
                    cs.append(s)
            cand.append(cs)
        tuples = [t for t in itertools.product(*cand)]
        if tier == 'quick' and len(tuples) > 24:
            tuples = tuples[::max(1, len(tuples) // 24)]
        for t in tuples:
            acc.states += 1
            tag = '%s | %s' % (desc, ' + '.join(t))
            mols = _disjoint(t)
            ref = reactor_vs_model(rx, mols, acc, tag + ' | disjoint numbers', desc)
            if ref is None:
                continue
            fired[ri] += bool(ref)
            # colliding numbers (every molecule numbered from 1), reversed reactant order, a spectator: same set of reactions, unique numbers
            for variant in ('colliding numbers', 'reversed order', 'with spectator'):
                acc.states += 1
                if variant == 'colliding numbers':
                    ms = [smiles(s) for s in t]
                elif variant == 'reversed order':
                    ms = [smiles(s) for s in t][::-1]
                else:
                    ms = [smiles(s) for s in t] + [smiles('CCCCCC')]
                try:
                    rs = list(itertools.islice(rx(*ms), 61))
                except Exception as e:
                    acc.fail('reactor raised %s :: %s' % (type(e).__name__, desc), case=tag + ' | ' + variant)
                    continue
                acc.transitions += 1
                sig = set()
                okk = True
                for r in rs:
                    nums = [n for mm in r.products for n in mm]
                    if len(nums) != len(set(nums)):
                        acc.fail('duplicate atom numbers among the products of a reaction :: %s' % desc, case=tag + ' | ' + variant, got=str(r))
                        okk = False
                        break
                    prods = list(r.products)
                    if variant == 'with spectator':
                        sp = [mm for mm in prods if format(mm, 'h') == format(smiles('CCCCCC'), 'h')]
                        if not sp:
                            acc.fail('spectator molecule changed or lost :: %s' % desc, case=tag + ' | ' + variant, got=str(r))
                            okk = False
                            break
                        prods.remove(sp[0])
                    pa, pb = _plain_of(prods)
                    sig.add(_norm_str(pa, pb))
                if okk and sig != ref:
                    acc.fail('product set depends on reactant order, numbering or a spectator :: %s' % desc, case=tag + ' | ' + variant, got=sorted(sig)[:3], expected=sorted(ref)[:3])
            acc.outcomes[(desc, bool(ref))] += 1
        if not fired[ri]:
            acc.info['prepared reactor never fired on the building-block pool'] = acc.info.get('prepared reactor never fired on the building-block pool', []) + [desc]
    # the collection wrapper: one_shot call without alerts == union of its reactors (as sets of reaction strings)
    if kind == 'fwd':
        pairs = list(itertools.product(pool[::3], pool[1::3])) if tier == 'quick' else list(itertools.product(pool, pool))
        for a, b in pairs:
            acc.states += 1
            try:
                ms = [smiles(a), smiles(b)]
                got = {str(r) for r in itertools.islice(pr(*[m.copy() for m in ms], check_alerts=False), 100)}
                exp = set()
                for rx in reactors:
                    exp |= {str(r) for r in itertools.islice(rx(*[m.copy() for m in ms]), 100)}
                gota = {str(r) for r in itertools.islice(pr(*[m.copy() for m in ms]), 100)}
            except Exception as e:
                acc.fail('prepared reactor raised %s :: reactions.%s' % (type(e).__name__, name), case='%s + %s' % (a, b))
                continue
            acc.transitions += 1
            if got != exp:
                acc.fail('prepared collection differs from the union of its reactors :: reactions.%s' % name, case='%s + %s' % (a, b), got=sorted(got)[:3], expected=sorted(exp)[:3])
            if not gota <= got:
                acc.fail('alert filtering adds reactions :: reactions.%s' % name, case='%s + %s' % (a, b))
            acc.outcomes[('wrapper', bool(got), bool(gota))] += 1
    else:
        for s in pool:
            acc.states += 1
            try:
                got = {str(r) for r in itertools.islice(pr(smiles(s)), 100)}
                exp = set()
                for rx in reactors:
                    exp |= {str(r) for r in itertools.islice(rx(smiles(s)), 100)}
            except Exception as e:
                acc.fail('prepared reactor raised %s :: retro.%s' % (type(e).__name__, name), case=s)
                continue
            acc.transitions += 1
            if got != exp:
                acc.fail('prepared collection differs from the union of its reactors :: retro.%s' % name, case=s, got=sorted(got)[:3], expected=sorted(exp)[:3])
            acc.outcomes[('wrapper', bool(got))] += 1
    acc.sample({'collection': name, 'reactors': len(reactors), 'fired': dict(fired)})
    return acc


def run_reactor_model(shard):
    """the synthetic multi-reactant reactions against the edit model (one_shot, with and without the automorphism filter)"""
    from chython import smiles, smarts, Reactor
    acc = Acc()
    for pats, prods, desc in REACTIONS:
        for af in (True, False):
            rx = Reactor(tuple(smarts(x) for x in pats), tuple(smarts(x) for x in prods), one_shot=True, automorphism_filter=af)
            for (a, b) in RMOLS + [(y, x) for x, y in RMOLS]:
                for spect in (None, 'CCCCCC'):
                    acc.states += 1
                    t = (a, b) + ((spect,) if spect else ())
                    tag = '%s | %s | filter %s' % (desc, ' + '.join(t), af)
                    ref = reactor_vs_model(rx, _disjoint(t), acc, tag, 'synthetic ' + desc)
                    acc.outcomes[(desc, bool(ref))] += 1
    return acc


AROM_MOLS = ['BrCc1c[nH]cn1', 'BrCc1cc[nH]n1', 'BrCCc1nc2ccccc2[nH]1', 'BrCc1c[nH]c2ccccc12', 'BrCc1ccc[nH]1', 'BrCc1ncc[nH]1', 'BrCc1cn[nH]c1', 'BrCc1nc2[nH]cnc2c(N)n1', 'BrCc1ccccc1', 'BrCc1ccncc1',
             'BrCc1cc(C)[nH]n1', 'OCc1c[nH]cn1', 'OCc1cc[nH]n1', 'BrCc1c[nH]c(=O)[nH]1']
AROM_TEMPLATES = [('[C:1]Br', '[A:1][O;M]', 'side chain: new atom'), ('[C:1]Br', '[A:1]', 'side chain: delete'), ('[C:1][O;D1:2]', '[A:1][S:2]', 'side chain: element change'),
                  ('[C:1][Br:2]', '[A:1][A:2]', 'side chain: identity')]


def run_aromatic_frame(shard):
    """frame condition on aromatic molecules as parsed (not kekulised): atoms the template does not name keep element, charge, radical state AND hydrogen count;
    ring bonds keep their orders; with and without the aromatic-ring post-processing"""
    from chython import smiles, smarts, Transformer
    acc = Acc()
    for pat, rep, desc in AROM_TEMPLATES:
        pattern, repl = smarts(pat), smarts(rep)
        for fix in (True, False):
            tr = Transformer(pattern, repl, automorphism_filter=False, fix_aromatic_rings=fix)
            for s in AROM_MOLS:
                m = smiles(s)
                m.kekule()
                m.thiele()      # aromatic form with every hydrogen count defined (an aromatic n as parsed has none)
                nums = list(m)
                for variant in ('as parsed', 'reversed numbers'):
                    mm = m.copy()
                    if variant != 'as parsed':
                        mm.remap({n: n + 100 for n in nums})
                        mm.remap({n + 100: x for n, x in zip(nums, nums[::-1])})
                    acc.states += 1
                    tag = '%s | %s >> %s | %s | %s | fix_aromatic_rings=%s' % (desc, pat, rep, s, variant, fix)
                    try:
                        matches = [dict(x) for x in pattern.get_mapping(mm, automorphism_filter=False, _cython=False)]
                        prods = list(tr(mm))
                    except Exception as e:
                        acc.fail('template application raised %s :: %s' % (type(e).__name__, desc), case=tag)
                        continue
                    acc.transitions += 1 + len(prods)
                    if len(prods) != len(matches):
                        acc.fail('number of products differs from the number of matches :: %s' % desc, case=tag, got=len(prods), expected=len(matches))
                        continue
                    for mapping, p in zip(matches, prods):
                        named = set(mapping.values())
                        for n, a in mm.atoms():
                            if n in named or n not in p._atoms:
                                continue
                            b = p.atom(n)
                            if (a.atomic_symbol, a.charge, a.is_radical, a.implicit_hydrogens) != (b.atomic_symbol, b.charge, b.is_radical, b.implicit_hydrogens):
                                acc.fail('an atom the template does not name changed its attributes or hydrogen count :: %s' % desc, case=tag, atom=n,
                                         got=[b.atomic_symbol, b.charge, b.is_radical, b.implicit_hydrogens], expected=[a.atomic_symbol, a.charge, a.is_radical, a.implicit_hydrogens])
                                break
                        else:
                            for x, y, bd in mm.bonds():
                                if x in named or y in named or x not in p._atoms or y not in p._atoms:
                                    continue
                                if not p.has_bond(x, y) or p.bond(x, y).order != bd.order:
                                    acc.fail('a bond between atoms the template does not name changed :: %s' % desc, case=tag, bond=[x, y])
                                    break
                            else:
                                if not mm.check_valence() and p.check_valence():
                                    acc.fail('product with a valence error :: %s' % desc, case=tag, got=format(p, 'h'))
                    acc.outcomes[(desc, fix, len(matches) > 0)] += 1
    acc.sample({'molecules': AROM_MOLS[:5], 'templates': [t[2] for t in AROM_TEMPLATES]})
    return acc


def run_exhaustive_single(shard):
    """one_shot=False with a single-pattern template (halide -> alcohol) on several input molecules: the reported product sets are exactly the non-empty subsets of the
    match sites (every molecule can react, any number of times, in any combination), independent of the order of the inputs"""
    from chython import smiles, smarts, Reactor, MoleculeContainer
    acc = Acc()
    cases = [('CBr', 'CCBr'), ('CBr', 'CCBr', 'CCCBr'), ('BrCCBr', 'CBr'), ('BrCCBr',), ('CBr', 'CBr'), ('CCBr', 'CCO'), ('BrCC(Br)CBr',), ('ClCBr', 'CCBr')]
    rx = Reactor((smarts('[C:1][Br:2]'),), (smarts('[A:1][O:2]'),), one_shot=False, polymerise_limit=6)
    for case in cases:
        for order in sorted(set(itertools.permutations(range(len(case))))):
            acc.states += 1
            mols = _disjoint([case[i] for i in order])
            tag = 'exhaustive single pattern | %s | order %s' % (' + '.join(case), list(order))
            try:
                rs = list(itertools.islice(rx(*[m.copy() for m in mols]), 300))
            except Exception as e:
                acc.fail('reactor raised %s :: exhaustive single pattern' % type(e).__name__, case=tag)
                continue
            acc.transitions += 1 + len(rs)
            # reference: every non-empty subset of C-Br sites turned into C-O
            u = _union(mols)
            sites = [(n, k) for n, k, b in u.bonds() if {u.atom(n).atomic_symbol, u.atom(k).atomic_symbol} == {'C', 'Br'}]
            sites = [(n, k) if u.atom(k).atomic_symbol == 'Br' else (k, n) for n, k in sites]
            exp = set()
            for r_ in range(1, len(sites) + 1):
                for sub in itertools.combinations(sites, r_):
                    atoms, bonds = plain(u)
                    for c_, br in sub:
                        atoms[br] = ['O', None, 0, False]
                    exp.add(tuple(sorted(format(x, 'h') for x in _build_plain(atoms, bonds).split())))
            got = set()
            for r in rs:
                nums = [n for mm in r.products for n in mm]
                if len(nums) != len(set(nums)):
                    acc.fail('duplicate atom numbers among the products of a reaction :: exhaustive single pattern', case=tag, got=str(r))
                    break
                got.add(tuple(sorted(format(x, 'h') for mm in r.products for x in mm.split())))
            else:
                if got != exp:
                    acc.fail('exhaustive mode does not report exactly the non-empty subsets of the reaction sites :: single pattern', case=tag,
                             missing=sorted(map(list, exp - got))[:3], extra=sorted(map(list, got - exp))[:3], got=len(got), expected=len(exp))
            acc.outcomes[(case, len(exp))] += 1
    acc.sample({'cases': [list(c) for c in cases[:4]], 'template': '[C:1][Br:2] >> [A:1][O:2], one_shot=False'})
    # the same with a template that gives TWO product molecules per site (ester hydrolysis): every later stage starts from several molecules
    rx2 = Reactor((smarts('[C:1](=[O:2])[O:3][C:4]'),), (smarts('[A:1](=[A:2])[O;M]'), smarts('[A:4][A:3]')), one_shot=False, polymerise_limit=6)
    q_ = smarts('[C:1](=[O:2])[O:3][C:4]')
    cases2 = [('CC(=O)OC',), ('CC(=O)OCCOC(C)=O',), ('CC(=O)OCC(OC(C)=O)COC(C)=O',), ('CC(=O)OC', 'CCCCCC'), ('CC(=O)OC', 'CCC(=O)OCC'), ('CC(=O)OCCOC(C)=O', 'CCCCCC'), ('COC(=O)CCC(=O)OCC',)]
    for case in cases2:
        for order in sorted(set(itertools.permutations(range(len(case))))):
            acc.states += 1
            mols = _disjoint([case[i] for i in order])
            tag = 'exhaustive two-product template | %s | order %s' % (' + '.join(case), list(order))
            try:
                rs = list(itertools.islice(rx2(*[m.copy() for m in mols]), 300))
            except Exception as e:
                acc.fail('reactor raised %s :: exhaustive two-product template' % type(e).__name__, case=tag)
                continue
            acc.transitions += 1 + len(rs)
            u = _union(mols)
            sites = sorted({(mp[1], mp[3]) for mp in q_.get_mapping(u, automorphism_filter=False)})
            exp = set()
            top = max(u) + 1
            for r_ in range(1, len(sites) + 1):
                for sub in itertools.combinations(sites, r_):
                    atoms, bonds = plain(u)
                    for j_, (c_, o_) in enumerate(sub):
                        del bonds[frozenset((c_, o_))]
                        atoms[top + j_] = ['O', None, 0, False]
                        bonds[frozenset((c_, top + j_))] = 1
                    exp.add(tuple(sorted(format(x, 'h') for x in _build_plain(atoms, bonds).split())))
            got = set()
            for r in rs:
                nums = [n for mm in r.products for n in mm]
                if len(nums) != len(set(nums)):
                    acc.fail('duplicate atom numbers among the products of a reaction :: exhaustive two-product template', case=tag, got=str(r))
                    break
                got.add(tuple(sorted(format(x, 'h') for mm in r.products for x in mm.split())))
            else:
                if got != exp:
                    acc.fail('exhaustive mode does not report exactly the non-empty subsets of the reaction sites :: two-product template', case=tag,
                             missing=sorted(map(list, exp - got))[:3], extra=sorted(map(list, got - exp))[:3], got=len(got), expected=len(exp))
            acc.outcomes[(case, len(exp))] += 1
    return acc


STEREO_REPL = [
    # (pattern, source, [spellings of ONE replacement], is_molecule)
    ('[C;D1:1]=[C;D2:2]', 'C=CC', ['[A:1]1O[A;@:2]1', '[A;@:2]1(O[A:1]1)', 'O1[A:1][A;@@:2]1'], False),
    ('[C;D1:1]=[C;D2:2]', 'C=CCC', ['[A:1]1O[A;@@:2]1', '[A;@@:2]1(O[A:1]1)'], False),
    ('[C;D2:1]Br', 'CCBr', ['[CH3:1][C@:2]1([F:3])[O:4][CH2:5][CH2:6]1', '[CH2:5]1[O:4][C@:2]([CH3:1])([F:3])[CH2:6]1', '[CH2:6]1[CH2:5][O:4][C@:2]1([CH3:1])[F:3]',
                             '[F:3][C@:2]1([CH3:1])[CH2:6][CH2:5][O:4]1'], True),
    ('[C;D2:1]Br', 'CCCBr', ['[CH3:1][C@@:2]([F:3])([Cl:4])[OH:5]', '[F:3][C@:2]([CH3:1])([Cl:4])[OH:5]', '[OH:5][C@@:2]([Cl:4])([F:3])[CH3:1]'], True),
    ('[C:1][O;D1:2]', 'CCO', ['[A:1][A:2][C@:3]1([F:4])[O:5][C:6]1', '[C:6]1[O:5][C@@:3]1([F:4])[A:2][A:1]', '[F:4][C@:3]1([A:2][A:1])[C:6][O:5]1'], False),
]


def run_stereo_replacement(shard):
    """a configuration requested by the replacement does not depend on how the replacement is spelled (labelled atom opening or closing a ring of the replacement,
    substituent order): every spelling of one replacement gives the same product, with a label on the new centre"""
    from chython import smiles, smarts, Transformer, Reactor
    from rdkit import Chem, RDLogger
    RDLogger.DisableLog('rdApp.*')
    acc = Acc()
    for pat, src, spellings, is_mol in STEREO_REPL:
        for engine in ('Transformer', 'Reactor'):
            outs = {}
            for sp in spellings:
                acc.states += 1
                acc.transitions += 1
                tag = 'stereo replacement | %s >> %s | %s | %s' % (pat, sp, src, engine)
                try:
                    repl = smiles(sp) if is_mol else smarts(sp)
                    if engine == 'Transformer':
                        prods = [str(x) for x in Transformer(smarts(pat), repl)(smiles(src))]
                    else:
                        prods = [str(x) for r in Reactor((smarts(pat),), (repl,))(smiles(src)) for x in r.products]
                except Exception as e:
                    acc.fail('template with a stereo label in the replacement raised %s' % type(e).__name__, case=tag)
                    continue
                if len(prods) != 1:
                    acc.fail('template with a stereo label in the replacement: number of products != 1', case=tag, got=prods)
                    continue
                if '@' not in prods[0]:
                    acc.fail('stereo label requested by the replacement is missing in the product', case=tag, got=prods[0])
                    continue
                rd = Chem.MolFromSmiles(prods[0])
                outs[sp] = Chem.MolToSmiles(rd) if rd is not None else prods[0]
            if len(set(outs.values())) > 1:
                acc.fail('spellings of one replacement give different stereoisomers :: %s' % engine, case='stereo replacement | %s | %s' % (pat, src), got={k: v for k, v in outs.items()})
            acc.outcomes[(pat, engine, len(set(outs.values())))] += 1
    acc.sample({'replacements': [s[2][0] for s in STEREO_REPL]})
    return acc


FWD_NAMES = ['amidation', 'amine_isocyanate', 'buchwald_hartwig', 'esterification', 'macmillan', 'reductive_amination', 'songashira', 'sulfonamidation', 'suzuki_miyaura']
RETRO_NAMES = ['amidation', 'aryl_amination', 'mitsunobu', 'sonogashira', 'suzuki_miyaura']


def plan(tier, seed):
    return [Stage('synthetic Transformer templates vs edit model', run_transformer, [(k, 21, tier) for k in range(21)], '%d templates (one per patcher branch) x %d molecules x 3 numberings x every match' % (len(TEMPLATES), len(MOLS))),
            Stage('multi-reactant Reactor', run_reactor, [(k, 4, tier) for k in range(4)], '4 reactions x 6 reactant pairs x spectators x all reactant orders x renumbering x one_shot on/off; colliding atom numbers'),
            Stage('built-in deprotection templates', run_builtin, [(k, 16, tier) for k in range(16)], 'every deprotection group + apply_all x protected molecules x 2 numberings: unique numbers, valence validity, numbering independence'),
            Stage('frame condition on aromatic molecules', run_aromatic_frame, [0], '4 side-chain templates x 14 aromatic N-H heterocycles in aromatic form x 2 numberings x aromatic post-processing on/off: unnamed atoms keep hydrogens, ring bonds keep orders'),
            Stage('exhaustive mode, single pattern', run_exhaustive_single, [0], 'halide -> alcohol on 8 input tuples and ester hydrolysis (two product molecules per site) on 7 input tuples incl. spectators, one_shot=False x every order of the inputs: product sets = non-empty subsets of the reaction sites'),
            Stage('stereo label in the replacement', run_stereo_replacement, [0], '5 replacements (query and molecule; new centres in rings and chains) x 2-4 spellings x Transformer / Reactor: one stereoisomer per replacement'),
            Stage('synthetic multi-reactant Reactor vs edit model', run_reactor_model, [0], '4 reactions x %d ordered reactant pairs (1-4 non-equivalent sites per reactant, equal and different site counts) x spectator x automorphism filter: set of reactions = edit model over every combination of matches' % (2 * len(RMOLS))),
            Stage('prepared reaction collections vs edit model', run_prepared, [('fwd', n, tier) for n in FWD_NAMES] + [('retro', n, tier) for n in RETRO_NAMES],
                  '9 forward + 5 retro collections (53 reactors) x every tuple of pool molecules matching the patterns: reactions = edit model over every combination of matches; '
                  'colliding numbers / reversed order / spectator give the same set; collection call = union of its reactors')]


def replay(rec):
    key = rec['key']
    case = rec.get('case', '')
    if case.startswith('reactions.') or case.startswith('retro.') or rec.get('key', '').split(' :: ')[-1].split('[')[0].split('.')[0] in ('reactions', 'retro'):
        d = key.split(' :: ')[-1]
        kind = 'fwd' if d.startswith('reactions') else 'retro'
        name = d.split('.')[1].split('[')[0]
        accs = [run_prepared((kind, name, 'thorough'))]
    elif 'stereo replacement' in case:
        accs = [run_stereo_replacement(0)]
    elif 'exhaustive single pattern' in case or 'exhaustive two-product template' in case:
        accs = [run_exhaustive_single(0)]
    elif 'fix_aromatic_rings=' in case:
        accs = [run_aromatic_frame(0)]
    elif 'synthetic ' in key:
        accs = [run_reactor_model(0)]
    elif case.startswith('deprotection'):
        accs = [run_builtin((k, 16, 'quick')) for k in range(16)]
    elif ' + ' in case:
        accs = [run_reactor((k, 4, 'quick')) for k in range(4)]
    else:
        accs = [run_transformer((k, 21, "quick")) for k in range(21)]
    return [f for a in accs for f in a.fails if f['key'] == key]
