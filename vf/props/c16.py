"""C16 -- template application edits exactly what the template names (independent graph-edit model)."""
import itertools

from ..core import Acc, Stage
from ..oracle import cycles
from ..scope import molecules as M, graphs

META = {
    'technique': 'bounded exhaustive enumeration of synthetic templates (one per patcher branch and pairs of branches) x molecules x matches on the real Transformer/Reactor, vs an independent graph-edit model; built-in templates checked by invariants',
    'rule': 'one state per (template, molecule[, numbering, reactant order]); expected product = plain-graph edit model applied to every match',
    'assumptions': ['matches are taken from the library matcher (its correctness is C07/C08); the model decides what each match must produce',
                    'hydrogen counts of products are not modelled (C04); valence validity is required for built-in templates on valence-valid input'],
}

# (pattern, replacement, description)
TEMPLATES = [
    ('[C:1][O:2]', '[A:1][A:2]', 'identity'),
    ('[C:1]Br', '[A:1]', 'delete atom'),
    ('[C:1]Br', '[A:1][O;M]', 'new atom'),
    ('[C:1]Br', '[A:1][N;M][C;M]', 'two new atoms'),
    ('[C:1][O:2]', '[A:1][S:2]', 'element change'),
    ('[C:1][N;D1:2]', '[A:1][A+:2]', 'charge set'),
    ('[C:1][O;D1:2]', '[A:1][A:2] |^1:1|', 'radical set'),
    ('[C:1]-[C:2]', '[A:1]=[A:2]', 'bond order change'),
    ('[C:1]=[C:2]', '[A:1]-[A:2]', 'bond order change down'),
    ('[C;M][C:1]Br', '[A:1]', 'masked neighbour kept'),
    ('[C:1]-[O:2]', '[A:1]', 'delete with detached fragment'),
    ('[C;D2;M]-[O:2]-[C:1]', '[A:1]', 'masked atom next to deleted atom'),
    ('[C:1][O:2][C:3]', '[A:1].[A:3]', 'cleave keeping both ends'),
    ('[C:1].[N:2]', '[A:1][A:2]', 'bond formation between components'),
    ('[C:1]([O:2])[N:3]', '[A:1]([A:3])[A:2]', 'reordered replacement'),
    ('[C:1][C:2][Cl:3]', '[A:1][A:2]', 'delete terminal of chain'),
    ('[C:1][Cl,Br:2]', '[A:1][I:2]', 'list element replaced'),
    ('[N:1][C:2]=[O:3]', '[A:1][A:2]=[S:3]', 'three atoms one changed'),
]


def plain(m):
    atoms = {n: [a.atomic_symbol, a.isotope, a.charge, a.is_radical] for n, a in m.atoms()}
    bonds = {frozenset((n, k)): b.order for n, k, b in m.bonds()}
    return atoms, bonds


def model(m, pattern, repl, mapping):
    """expected product of applying (pattern >> repl) at `mapping` (pattern atom -> molecule atom)"""
    from chython.periodictable.base.query import AnyElement
    atoms, bonds = plain(m)
    adj = {n: set() for n in atoms}
    for b in bonds:
        a, c = tuple(b)
        adj[a].add(c)
        adj[c].add(a)
    repl_atoms = set(repl)
    to_delete = {mapping[x] for x, a in pattern.atoms() if not a.masked and x not in repl_atoms}
    remain = set(mapping.values()) - to_delete
    # detached fragments: pieces hanging on a deleted atom that have no path (avoiding deleted atoms) to a remaining matched atom
    deleted = set(to_delete)
    for d in to_delete:
        for nb in adj[d]:
            if nb in to_delete or nb in remain:
                continue
            seen = {nb}
            st = [nb]
            reach = False
            while st:
                x = st.pop()
                for y in adj[x]:
                    if y in to_delete or y in seen:
                        continue
                    if y in remain:
                        reach = True
                    seen.add(y)
                    st.append(y)
            if not reach and not (seen & remain):
                deleted |= seen
    mp = dict(mapping)
    nxt = max(atoms) + 1
    new_atoms = {}
    for n, ra in repl.atoms():
        if n in mp:
            src = atoms[mp[n]]
            if isinstance(ra, AnyElement):
                new_atoms[mp[n]] = [src[0], src[1], ra.charge, ra.is_radical]
            else:
                new_atoms[mp[n]] = [ra.atomic_symbol, ra.isotope, ra.charge, ra.is_radical]
        else:
            mp[n] = nxt
            new_atoms[nxt] = [ra.atomic_symbol, ra.isotope, ra.charge, ra.is_radical]
            nxt += 1
    patched = set(new_atoms)
    out_atoms = dict(new_atoms)
    for n, a in atoms.items():
        if n not in patched and n not in deleted:
            out_atoms[n] = a
    out_bonds = {}
    for n, k, b in repl.bonds():
        out_bonds[frozenset((mp[n], mp[k]))] = b.order[0] if isinstance(b.order, tuple) else int(b)
    for bd, o in bonds.items():
        a, c = tuple(bd)
        if a in deleted or c in deleted:
            continue
        if a in patched and c in patched:
            continue
        out_bonds[bd] = o
    return out_atoms, out_bonds


def product_plain(p):
    atoms = {n: [a.atomic_symbol, a.isotope, a.charge, a.is_radical] for n, a in p.atoms()}
    bonds = {frozenset((n, k)): b.order for n, k, b in p.bonds()}
    return atoms, bonds


def stereo_untouched(m, p, touched):
    """labels of tetrahedral centres whose neighbour set is unchanged and that are not named by the template must keep their configuration"""
    for n, a in m.atoms():
        if a.stereo is None or n in touched or n not in p._atoms:
            continue
        if n not in m.stereogenic_tetrahedrons:
            continue
        if set(m._bonds[n]) != set(p._bonds[n]) or any(x in touched for x in m._bonds[n]):
            continue
        if p.atom(n).stereo is None:
            return 'stereo label of an untouched centre lost'
        env = sorted(x for x in m._bonds[n] if m.atom(x).atomic_number != 1)
        if m._translate_tetrahedron_sign(n, env) != p._translate_tetrahedron_sign(n, env):
            return 'configuration of an untouched centre changed'
    return None


MOLS = ['CCO', 'CCBr', 'BrCCBr', 'CC(Br)CO', 'COC', 'CCOCC', 'CC(O)N', 'CCN', 'C=CCO', 'CC(=O)N', 'NC(C)=O', 'CCCCl', 'ClCCBr', 'C[C@H](OC)CBr', 'C[C@H](N)CO', 'OCC1CC1', 'C1COCC1', 'CCO.CN',
        'BrC(Br)C', 'CC(C)(C)O', 'OCCO', 'c1ccccc1CBr', 'NCCO', 'C/C=C/CBr', 'CC(N)=O.CO', 'CCC(Cl)CC', 'N[C@@H](C)C(=O)O', 'O=C(N)c1ccccc1', 'CNC(C)=O', 'COC(C)OC']


def run_transformer(shard):
    from chython import smiles, smarts, Transformer
    k, nsh, tier = shard
    acc = Acc()
    mols = list(MOLS)
    if tier == 'thorough':
        mols += M.corpus(stride=20)
    for ti, (pat, rep, desc) in enumerate(TEMPLATES):
        if ti % nsh != k:
            continue
        try:
            pattern, repl = smarts(pat), smarts(rep)
            tr = Transformer(pattern, repl, fix_aromatic_rings=False)
            tr_all = Transformer(pattern, repl, automorphism_filter=False, fix_aromatic_rings=False)
        except Exception as e:
            acc.fail('template construction raised %s :: %s' % (type(e).__name__, desc), template=[pat, rep])
            continue
        for s in mols:
            try:
                m0 = smiles(s)
                if any(b.order == 4 for *_, b in m0.bonds()):
                    m0.kekule()
            except Exception:
                continue
            nums = list(m0)
            for variant, mp_ in (('as parsed', None), ('reversed numbers', dict(zip(nums, nums[::-1]))), ('shifted numbers', {n: n + 17 for n in nums})):
                m = m0.copy()
                if mp_:
                    if variant == 'shifted numbers':
                        m.remap({n: n + 100 for n in nums})
                        m.remap({n + 100: n + 17 for n in nums})
                    else:
                        m.remap({n: n + 100 for n in nums})
                        m.remap({n + 100: mp_[n] for n in nums})
                acc.states += 1
                tag = '%s | %s >> %s | %s | %s' % (desc, pat, rep, s, variant)

                def bad(what, **d):
                    acc.fail('%s :: %s' % (what, desc), case=tag, **d)
                    acc.outcomes['FAIL ' + what] += 1
                try:
                    matches = [dict(x) for x in pattern.get_mapping(m, automorphism_filter=False, _cython=False)]
                    prods = list(tr_all(m))
                    prods_f = list(tr(m))
                except Exception as e:
                    bad('template application raised %s' % type(e).__name__)
                    continue
                acc.transitions += len(matches) + 2
                if len(prods) != len(matches):
                    bad('number of products differs from the number of matches', got=len(prods), expected=len(matches))
                    continue
                if len(prods_f) != len({frozenset(x.values()) for x in matches}):
                    bad('number of products differs from the number of distinct matches (automorphism filter)', got=len(prods_f), expected=len({frozenset(x.values()) for x in matches}))
                for mapping, p in zip(matches, prods):
                    exp = model(m, pattern, repl, mapping)
                    got = product_plain(p)
                    if got[0] != exp[0]:
                        extra = sorted(set(got[0]) - set(exp[0]))
                        missing = sorted(set(exp[0]) - set(got[0]))
                        bad('product atoms differ from the edit model', mapping=mapping, extra=extra, missing=missing, got=str(p))
                        break
                    if got[1] != exp[1]:
                        bad('product bonds differ from the edit model', mapping=mapping, got=str(p))
                        break
                    if len(set(p)) != len(list(p)):
                        bad('duplicate atom numbers in a product')
                        break
                    r = stereo_untouched(m, p, set(mapping.values()))
                    if r:
                        bad(r, mapping=mapping, got=str(p))
                        break
                    if desc == 'identity' and str(p) != str(m):
                        bad('identity template does not return the input', got=str(p), expected=str(m))
                        break
                acc.outcomes[(desc, len(matches) > 0)] += 1
        acc.sample({'template': [pat, rep, desc], 'molecules': len(mols)})
    return acc


REACTIONS = [
    (['[C:1](=[O:2])[O;D1:3]', '[N;D1:4][C:5]'], ['[A:1](=[A:2])[A:4][A:5]'], 'amide formation'),
    (['[C:1][Br:9]', '[O;D1:2][C:3]'], ['[A:1][A:2][A:3]'], 'ether formation'),
    (['[C:1]=[O:2]', '[N;D1:3]'], ['[A:1]=[A:3]', '[O:2]'], 'two products'),
    (['[C:1][Br:9]', '[N;D1:2]'], ['[A:1][A:2][C:7](=[O:8])'], 'new atoms in product'),
]
RMOLS = [('CC(=O)O', 'NCC'), ('CCBr', 'OCC'), ('CC=O', 'NC'), ('OC(=O)CC(=O)O', 'NCCN'), ('BrCCBr', 'OCCO'), ('CCBr', 'NCC')]
SPECT = ['CCCCCC', 'c1ccccc1', 'O', 'ClCCl']


def run_reactor(shard):
    from chython import smiles, smarts, Reactor
    k, nsh, tier = shard
    acc = Acc()
    for ri, (pats, prods, desc) in enumerate(REACTIONS):
        if ri % nsh != k:
            continue
        for one_shot in (True, False):
            try:
                rx = Reactor(tuple(smarts(x) for x in pats), tuple(smarts(x) for x in prods), one_shot=one_shot, polymerise_limit=3)
            except Exception as e:
                acc.fail('reactor construction raised %s :: %s' % (type(e).__name__, desc))
                continue
            for (a, b) in RMOLS:
                for spect in [None] + SPECT:
                    base = [smiles(a), smiles(b)] + ([smiles(spect)] if spect else [])   # every molecule numbered from 1: colliding numbers
                    ref = None
                    orders = list(itertools.permutations(range(len(base))))
                    for oi, order in enumerate(orders):
                        for renum in (False, True):
                            acc.states += 1
                            mols = [base[i].copy() for i in order]
                            if renum:
                                for j, mm in enumerate(mols):
                                    ns = list(mm)
                                    mm.remap({n: n + 300 for n in ns})
                                    mm.remap({n + 300: x for n, x in zip(ns, ns[::-1])})
                            tag = '%s | %s + %s + %s | order %s renum %s one_shot %s' % (desc, a, b, spect, list(order), renum, one_shot)

                            def bad(what, **d):
                                acc.fail('%s :: %s' % (what, desc), case=tag, **d)
                                acc.outcomes['FAIL ' + what] += 1
                            try:
                                rs = list(itertools.islice(rx(*mols), 40))
                            except Exception as e:
                                bad('reactor raised %s' % type(e).__name__)
                                continue
                            acc.transitions += 1 + len(rs)
                            sig = set()
                            for r in rs:
                                nums = [n for mm in r.products for n in mm]
                                if len(nums) != len(set(nums)):
                                    bad('duplicate atom numbers among the products of a reaction', got=str(r))
                                    break
                                rn = [n for mm in r.reactants for n in mm]
                                if len(rn) != len(set(rn)):
                                    bad('duplicate atom numbers among the reactants of a reaction', got=str(r))
                                    break
                                # spectator unchanged and present
                                if spect and str(smiles(spect)) not in {str(mm) for mm in r.products}:
                                    bad('spectator molecule changed or lost', got=str(r))
                                    break
                                if any(mm.check_valence() for mm in r.products):
                                    bad('product with a valence error', got=str(r))
                                    break
                                sig.add(tuple(sorted(str(mm) for mm in r.products)))
                            if ref is None:
                                ref = sig
                            elif sig != ref:
                                bad('product set depends on reactant order or numbering', got=sorted(map(list, sig))[:3], expected=sorted(map(list, ref))[:3])
                    acc.outcomes[(desc, bool(ref))] += 1
        acc.sample({'reaction': [pats, prods, desc]})
    return acc


def run_builtin(shard):
    """built-in deprotection and prepared-reaction templates: invariants only"""
    from chython import smiles
    k, nsh, tier = shard
    acc = Acc()
    from chython.reactor import deprotection
    names = [n for n in dir(deprotection) if not n.startswith('_') and n not in ('apply_all',)]
    mols = ['CC(C)(C)OC(=O)NCC', 'CC(=O)OCC', 'COC(=O)c1ccccc1', 'C[Si](C)(C)OCC', 'CC(C)(C)[Si](C)(C)OCCO', 'O=C(OCc1ccccc1)NCC', 'CCOC(C)=O', 'COCOC', 'CC1(C)OCC(CO)O1',
            'CC(=O)Nc1ccccc1', 'CCN(C(=O)OC(C)(C)C)CC', 'CCO', 'c1ccccc1COCC', 'CC(=O)OCCOC(C)=O', 'CCC[Si](C)(C)OCC']
    if tier == 'thorough':
        mols += M.corpus(stride=40)
    for mi, s in enumerate(mols):
        if mi % nsh != k:
            continue
        try:
            m = smiles(s)
        except Exception:
            continue
        valid = not m.check_valence()
        ref = {}
        nums = list(m)
        for variant in ('as parsed', 'reversed'):
            mm = m.copy()
            if variant == 'reversed':
                mm.remap({n: n + 500 for n in nums})
                mm.remap({n + 500: x for n, x in zip(nums, nums[::-1])})
            for name in names + ['apply_all']:
                acc.states += 1
                acc.transitions += 1
                tag = 'deprotection.%s | %s | %s' % (name, s, variant)
                try:
                    f = getattr(deprotection, name)
                    if not callable(f):
                        continue
                    p = f(mm.copy())
                except Exception as e:
                    acc.fail('built-in template raised %s :: deprotection.%s' % (type(e).__name__, name), case=tag)
                    continue
                if p is None or not hasattr(p, 'atoms'):
                    continue
                if len(set(p)) != len(list(p)):
                    acc.fail('duplicate atom numbers in a product :: deprotection.%s' % name, case=tag)
                if valid and p.check_valence():
                    acc.fail('product with a valence error :: deprotection.%s' % name, case=tag, got=format(p, 'h'))
                # atoms that survive keep element/charge (frame condition on survivors that are not part of any changed bond)
                key = (name,)
                sig = str(p)
                if key in ref and ref[key] != sig:
                    acc.fail('product depends on atom numbering :: deprotection.%s' % name, case=tag, got=sig, expected=ref[key])
                ref.setdefault(key, sig)
                acc.outcomes[(name, sig != str(m))] += 1
    acc.sample({'built-in': names[:6], 'molecules': mols[:4]})
    return acc


def plan(tier, seed):
    return [Stage('synthetic Transformer templates vs edit model', run_transformer, [(k, 18, tier) for k in range(18)], '%d templates (one per patcher branch) x %d molecules x 3 numberings x every match' % (len(TEMPLATES), len(MOLS))),
            Stage('multi-reactant Reactor', run_reactor, [(k, 4, tier) for k in range(4)], '4 reactions x 6 reactant pairs x spectators x all reactant orders x renumbering x one_shot on/off; colliding atom numbers'),
            Stage('built-in deprotection templates', run_builtin, [(k, 16, tier) for k in range(16)], 'every deprotection group + apply_all x protected molecules x 2 numberings: unique numbers, valence validity, numbering independence')]


def replay(rec):
    key = rec['key']
    case = rec.get('case', '')
    if case.startswith('deprotection'):
        accs = [run_builtin((k, 16, 'quick')) for k in range(16)]
    elif ' + ' in case:
        accs = [run_reactor((k, 4, 'quick')) for k in range(4)]
    else:
        accs = [run_transformer((k, 18, 'quick')) for k in range(18)]
    return [f for a in accs for f in a.fails if f['key'] == key]
