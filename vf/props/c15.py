"""C15 -- reactions: role-preserving I/O, order-free identity, exact condensed graph (ground-truth edits)."""
import itertools

from ..core import Acc, Stage
from ..scope import graphs

FORMAT_SPECS = ('h', 'A', 'a', 'm', '!s', '!x', '!z', '!b', 'hm')

SPARSE_A = [8, 100, 111, 156, 196, 1033, 517, 2048, 77, 4000, 263, 3001, 64, 129, 1025, 999, 32, 4095, 650, 1290, 2600, 515, 3333, 41]
SPARSE_B = [4095, 7, 1024, 512, 33, 65, 2049, 300, 17, 1000, 131, 259, 3000, 96, 1500, 2222, 640, 9, 72, 4001, 1111, 555, 2750, 48]

META = {
    'technique': 'bounded exhaustive enumeration of reactions built from small molecules by <=2 ground-truth edits x role shapes x role-internal orders x consistent renumberings on the real reaction/CGR code',
    'rule': 'one state per (reactant set, edit set, role shape, order/renumbering); the oracle is the recorded edit list',
    'assumptions': ['products are the reactants under a recorded list of edits, so the expected dynamic atoms and bonds are known by construction'],
}

BASE = ['CCO', 'CC(=O)O', 'CN', 'C=C', 'CCl', 'c1ccccc1', 'C[O-]', 'O', 'CC#N', 'C1CC1']
SALTS = ['[Na+].[Cl-]', 'CC(=O)[O-].[Na+]', 'C[NH3+].[Cl-]']


def renumbered(mols):
    """give the molecules of a list disjoint consecutive numbers; returns copies"""
    out = []
    k = 1
    for m in mols:
        c = m.copy()
        c.remap({n: 1000 + i for i, n in enumerate(c)})
        c.remap({n: k + i for i, n in enumerate(c)})
        k += len(c)
        out.append(c)
    return out


def edits_for(u):
    """single ground-truth edits on the union molecule u: (kind, ...)"""
    ev = []
    atoms = list(u)
    for n, k, b in u.bonds():
        if b.order == 1:
            ev.append(('order', n, k, 1, 2))
            ev.append(('cleave', n, k, 1))
        elif b.order == 2:
            ev.append(('order', n, k, 2, 1))
        elif b.order == 3:
            ev.append(('order', n, k, 3, 2))
            ev.append(('order', n, k, 3, 1))
    for a, b in itertools.combinations(atoms, 2):
        if not u.has_bond(a, b) and (a + b) % 3 == 0:
            ev.append(('form', a, b, 1))
    for a in atoms:
        at = u.atom(a)
        if at.charge == 0:
            ev.append(('charge', a, 0, 1))
            ev.append(('charge', a, 0, -1))
        else:
            ev.append(('charge', a, at.charge, 0))
            # changes that do not pass through zero (added after seed C15-h2)
            ev.append(('charge', a, at.charge, 2 * at.charge))
            ev.append(('charge', a, at.charge, -at.charge))
        ev.append(('radical', a, at.is_radical, not at.is_radical))
    return ev


def apply_edits(u, eds):
    p = u.copy()
    with p:
        for e in eds:
            if e[0] == 'order':
                p.delete_bond(e[1], e[2])
                p.add_bond(e[1], e[2], e[4])
            elif e[0] == 'cleave':
                p.delete_bond(e[1], e[2])
            elif e[0] == 'form':
                p.add_bond(e[1], e[2], e[3])
            elif e[0] == 'charge':
                p.atom(e[1]).charge = e[3]
            elif e[0] == 'radical':
                p.atom(e[1]).is_radical = e[3]
    return p


def compatible(e1, e2):
    s1 = {e1[1]} | ({e1[2]} if e1[0] in ('order', 'cleave', 'form') else set())
    s2 = {e2[1]} | ({e2[2]} if e2[0] in ('order', 'cleave', 'form') else set())
    if e1[0] == e2[0] and e1[1:3] == e2[1:3]:
        return False
    if e1[0] in ('order', 'cleave', 'form') and e2[0] in ('order', 'cleave', 'form') and {e1[1], e1[2]} == {e2[1], e2[2]}:
        return False
    if e1[0] == e2[0] in ('charge', 'radical') and e1[1] == e2[1]:
        return False
    return True


def expected_center(eds):
    atoms = set()
    bonds = {}
    attrs = {}
    for e in eds:
        if e[0] == 'order':
            bonds[frozenset((e[1], e[2]))] = (e[3], e[4])
        elif e[0] == 'cleave':
            bonds[frozenset((e[1], e[2]))] = (e[3], None)
        elif e[0] == 'form':
            bonds[frozenset((e[1], e[2]))] = (None, e[3])
        elif e[0] == 'charge':
            attrs.setdefault(e[1], {})['charge'] = (e[2], e[3])
        elif e[0] == 'radical':
            attrs.setdefault(e[1], {})['radical'] = (e[2], e[3])
    for b in bonds:
        atoms |= set(b)
    atoms |= set(attrs)
    return atoms, bonds, attrs


def check_cgr(acc, r, u, eds, tag, bad):
    acc.transitions += 1
    try:
        cgr = ~r
    except Exception as e:
        bad('condensed graph raised %s' % type(e).__name__, case=tag)
        return None
    atoms, bonds, attrs = expected_center(eds)
    got_center = set(cgr.center_atoms)
    if got_center != atoms:
        bad('reaction centre differs from the ground-truth edits', case=tag, got=sorted(got_center), expected=sorted(atoms))
        return cgr
    seen = set()
    for n, k, b in cgr.bonds():
        key = frozenset((n, k))
        seen.add(key)
        exp = bonds.get(key)
        if exp is None:
            o = u.bond(n, k).order if u.has_bond(n, k) else None
            exp = (o, o)
        if (b.order, b.p_order) != exp:
            bad('dynamic bond differs from the ground truth', case=tag, bond=sorted(key), got=[b.order, b.p_order], expected=list(exp))
            return cgr
    for key in bonds:
        if key not in seen:
            bad('changed bond missing from the condensed graph', case=tag, bond=sorted(key))
            return cgr
    for n, a in cgr.atoms():
        ua = u.atom(n)
        ch = attrs.get(n, {}).get('charge', (ua.charge, ua.charge))
        rd = attrs.get(n, {}).get('radical', (ua.is_radical, ua.is_radical))
        if (a.charge, a.p_charge) != ch or (a.is_radical, a.p_is_radical) != rd or a.atomic_number != ua.atomic_number:
            bad('dynamic atom differs from the ground truth', case=tag, atom=n, got=[a.charge, a.p_charge, a.is_radical, a.p_is_radical], expected=[ch, rd])
            return cgr
        if a.is_dynamic != (ch[0] != ch[1] or rd[0] != rd[1]):
            bad('is_dynamic flag of an atom wrong', case=tag, atom=n)
    return cgr


def roles_sig(r):
    return tuple(tuple(sorted(str(m) for m in ml)) for ml in (r.reactants, r.reagents, r.products))


def check_io(acc, r, tag, bad):
    from chython import smiles, ReactionContainer
    acc.transitions += 2
    try:
        s = str(r)
        back = smiles(s)
    except Exception as e:
        bad('reaction SMILES cannot be written/read back: %s' % type(e).__name__, case=tag)
        return
    if not isinstance(back, ReactionContainer):
        bad('reaction SMILES reads back as a molecule', case=tag, text=s)
        return
    if roles_sig(back) != roles_sig(r):
        bad('reading back the reaction SMILES changes roles or molecules', case=tag, text=s, got=[list(x) for x in roles_sig(back)], expected=[list(x) for x in roles_sig(r)])
    if str(back) != s:
        bad('reaction SMILES is not stable under read/write', case=tag, text=s, got=str(back))


def run_cases(shard):
    from chython import smiles, ReactionContainer
    k, nsh, tier = shard
    acc = Acc()
    base = [smiles(s) for s in BASE]
    salts = [smiles(s) for s in SALTS]
    sets = []
    for a in range(len(base)):
        sets.append([base[a]])
    for a, b in itertools.combinations(range(len(base)), 2):
        if (a + b) % (2 if tier == 'quick' else 1) == 0:
            sets.append([base[a], base[b]])
    sets += [[base[0], salts[0]], [salts[1], base[4]], [salts[2], base[1], base[3]], [base[0], base[1], base[2]]]
    ci = 0
    for si, ms in enumerate(sets):
        if si % nsh != k:
            continue
        texts = {}  # CGR string -> numbering-free multiset of changes (added after seed C15-h1): one string, one set of changes
        mols = renumbered(ms)
        u = mols[0]
        for x in mols[1:]:
            u = u | x
        single = edits_for(u)
        combos = [()] + [(e,) for e in single]
        pairs = [(e1, e2) for e1, e2 in itertools.combinations(single, 2) if compatible(e1, e2)]
        combos += pairs[:: (7 if tier == 'quick' else 1)]
        for eds in combos:
            acc.states += 1
            tag = '%s | %s' % ('.'.join(str(m) for m in ms), list(eds))

            def bad(what, **d):
                acc.fail(what, shard=[k, nsh, tier], **d)
                acc.outcomes['FAIL ' + what] += 1
            try:
                p = apply_edits(u, eds)
                prods = p.split()
            except Exception as e:
                bad('building products raised %s' % type(e).__name__, case=tag)
                continue
            reagent = renumbered([smiles('CO')])[0]
            reagent.remap({n: n + 500 for n in reagent})
            shapes = [(mols, [], prods), (mols, [reagent], prods)]
            if not eds:
                shapes += [(mols, [], []), ([], mols, []), ([], [], mols), (mols, [reagent], [])]
            for rs, gs, ps in shapes:
                try:
                    r = ReactionContainer(rs, ps, gs)
                except Exception as e:
                    bad('reaction construction raised %s' % type(e).__name__, case=tag)
                    continue
                check_io(acc, r, tag, bad)
                # order-free identity: every permutation inside every role
                ref_s, ref_h = str(r), hash(r)
                ref_f = {spec: format(r, spec) for spec in FORMAT_SPECS}
                for pr in itertools.permutations(rs):
                    for pp in itertools.islice(itertools.permutations(ps), 6):
                        acc.transitions += 1
                        r2 = ReactionContainer(list(pr), list(pp), gs)
                        if str(r2) != ref_s or hash(r2) != ref_h or not (r2 == r):
                            bad('reaction string depends on the order of molecules inside a role', case=tag, got=str(r2), expected=ref_s)
                            break
                        # the same under every format option; '!c' is the documented exception: it keeps the given order
                        for spec in FORMAT_SPECS:
                            acc.transitions += 1
                            if format(r2, spec) != ref_f[spec]:
                                bad('formatted reaction string depends on the order of molecules inside a role :: %s' % spec, case=tag, got=format(r2, spec), expected=ref_f[spec])
                                break
                        else:
                            kept = format(r2, '!c!x').split('>')
                            want = ['.'.join(format(m, '!x') for m in role) for role in (pr, gs, pp)]
                            if kept != want:
                                bad("format option '!c' does not keep the given order of molecules", case=tag, got=kept, expected=want)
                                break
                            continue
                        break
                if ps and rs:
                    cgr = check_cgr(acc, r, u if not gs else (u | gs[0]), eds, tag, bad)
                    if cgr is not None:
                        # CGR string invariant under consistent renumbering of both sides
                        try:
                            ref_c = str(cgr)
                        except Exception as e:
                            bad('condensed graph string raised %s' % type(e).__name__, case=tag)
                            continue
                        if not gs:
                            _a, _b, _t = expected_center(eds)
                            sig = (tuple(sorted(map(str, _b.values()))), tuple(sorted(str((u.atom(n).atomic_number, sorted(d.items()))) for n, d in _t.items())))
                            if texts.setdefault(ref_c, (sig, tag))[0] != sig:
                                bad('two condensed graphs with different changes share one string', case=tag, other=texts[ref_c][1], got=ref_c)
                        nums = sorted(set(n for m in rs + ps + gs for n in m))
                        perms = graphs.gen_perms(nums)
                        # sparse numbers as well (sets of such numbers do not iterate in ascending order)
                        sparse = [dict(zip(nums, SPARSE_A)), dict(zip(nums, SPARSE_B))]
                        for pm in perms[:: max(1, len(perms) // 6)] + sparse:
                            acc.transitions += 1
                            tmp = {n: 10000 + n for n in nums}
                            r3 = ReactionContainer([_remap(_remap(m, tmp), {10000 + a: b for a, b in pm.items()}) for m in rs],
                                                   [_remap(_remap(m, tmp), {10000 + a: b for a, b in pm.items()}) for m in ps],
                                                   [_remap(_remap(m, tmp), {10000 + a: b for a, b in pm.items()}) for m in gs])
                            try:
                                c3 = str(~r3)
                            except Exception as e:
                                bad('condensed graph of a renumbered reaction raised %s' % type(e).__name__, case=tag)
                                break
                            if c3 != ref_c:
                                bad('condensed graph string depends on consistent renumbering', case=tag, got=c3, expected=ref_c)
                                break
            acc.outcomes[len(eds)] += 1
            ci += 1
        if si < 2:
            acc.sample({'reactants': [str(m) for m in ms], 'edits': 'all single + compatible pairs', 'example': list(single[:3])})
    return acc


def _remap(m, mp):
    c = m.copy()
    c.remap({k: v for k, v in mp.items() if k in c._atoms})
    return c


def run_text(shard):
    """reaction SMILES round trips with radicals, fragment grouping and empty roles (text level)"""
    from chython import smiles
    acc = Acc()
    mols = ['CCO', 'C[CH2] |^1:1|', '[Na+].[Cl-]', 'CC(=O)[O-].[Na+]', '[OH] |^1:0|', 'C=C', '[Cl] |^1:0|', '[K+].[K+].[O-]C([O-])=O', '[Na+].[Na+].[Na+].[O-]P([O-])([O-])=O', 'O.O.[Cu+2].[O-]S([O-])(=O)=O']
    plain = ['CCO', 'C[CH2]', '[Na+].[Cl-]', 'CC(=O)[O-].[Na+]', '[OH]', 'C=C', '[Cl]']
    from chython import ReactionContainer
    objs = [smiles(s) for s in mols]
    for a, b, c in itertools.product(range(0, 3), repeat=3):
        if a + b + c == 0:
            continue
        for off in range(len(objs)):
            acc.states += 1
            pick = [objs[(off + i) % len(objs)] for i in range(a + b + c)]
            rs, gs, ps = pick[:a], pick[a:a + b], pick[a + b:]
            tag = 'roles (%d,%d,%d) offset %d' % (a, b, c, off)

            def bad(what, **d):
                acc.fail(what, **d)
                acc.outcomes['FAIL ' + what] += 1
            try:
                r = ReactionContainer(rs, ps, gs)
            except Exception as e:
                bad('reaction construction raised %s' % type(e).__name__, case=tag)
                continue
            check_io(acc, r, tag, bad)
            acc.outcomes[(a, b, c)] += 1
    acc.sample({'role shapes': '{0,1,2}^3', 'molecules': mols})
    return acc


def plan(tier, seed):
    return [Stage('ground-truth edits', run_cases, [(k, 32, tier) for k in range(32)],
                  'reactant sets of 1-3 small molecules/salts x (0, 1, 2) edits from {order change, cleavage, formation, charge, radical} x role shapes x role-internal permutations x GEN renumberings'),
            Stage('reaction SMILES round trips', run_text, [0], 'role counts {0,1,2}^3 with radicals and salts of 2, 3, 4 and 5 components in every role and every position')]


def replay(rec):
    key = rec['key']
    if 'roles (' in rec.get('case', ''):
        accs = [run_text(0)]
    elif rec.get('shard'):
        accs = [run_cases(tuple(rec['shard']))]
    else:
        accs = [run_cases((k, 32, 'quick')) for k in range(32)]
    return [f for a in accs for f in a.fails if f['key'] == key]
