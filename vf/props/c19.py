"""C19 -- identical results across processes, hash seeds, call order, cached/uncached calls and copies (configuration grid)."""
import json
import os
import subprocess
import sys

from ..core import Acc, Stage
from .. import boot

META = {
    'technique': 'complete enumeration of the configuration grid {PYTHONHASHSEED} x {fresh interpreter} x {input order} x {first, cached, flushed, copy} on the real code; all digests of one input must coincide',
    'rule': 'one state per (input, configuration cell, evaluation mode); an observable is digested including dict/set iteration order',
    'assumptions': ['five fixed hash seeds (0, 1, 2, 4242, VERIF_SEED+7) stand for "all hash seeds"', 'hash(mol) itself is excluded: it is hash(str) and string hashing is seed dependent by design'],
}

MODES = ['first', 'second', 'flushed', 'copy', 'copy_after', 'after_failed_tx']


def run_cell(cell):
    hs, order, stride, nq = cell
    env = dict(os.environ, PYTHONHASHSEED=str(hs), PYTHONDONTWRITEBYTECODE='1')
    p = subprocess.run([sys.executable, os.path.join(boot.VERIF, 'vf', 'props', 'c19_worker.py'), boot.VERIF, order, str(stride), str(nq)],
                       capture_output=True, text=True, env=env)
    if p.returncode:
        raise RuntimeError('worker failed: ' + p.stderr[-2000:])
    return cell, json.loads(p.stdout)


def driver(pmap, tier, seed):
    acc = Acc()
    seeds = [0, 1, 2, 4242, seed + 7]
    stride, nq = (32, 8) if tier == 'quick' else (4, 40)
    cells = [(hs, o, stride, nq) for hs in seeds for o in ('fwd', 'rev')]
    results = {}
    for cell, res in pmap(run_cell, cells):
        results[cell] = res
    ref_cell = cells[0]
    ref = results[ref_cell]
    for key, r0 in ref.items():
        if 'parse' in r0:
            acc.info['unparsable inputs'] += 1
            continue
        base = r0['first']
        for cell in cells:
            r = results[cell].get(key)
            if r is None or 'parse' in r:
                acc.fail('input present in one configuration only', input=key, cell=list(cell))
                continue
            for mode in MODES:
                acc.states += 1
                acc.transitions += len(base)
                for obs, d in r[mode].items():
                    if d != base[obs]:
                        kind = 'across processes/hash seeds/order' if mode == 'first' else 'between %s and first evaluation' % mode
                        acc.fail('%s differs %s' % (obs.rstrip('0123456789'), kind), input=key, cell=list(cell), mode=mode, observable=obs)
                        break
            n0 = r0['norm']
            for obs, d in r['norm'].items():
                acc.transitions += 1
                if d != n0.get(obs):
                    acc.fail('normalisation result %s differs across processes/hash seeds/order' % obs.split('/')[0], input=key, cell=list(cell), observable=obs)
                    break
            for obs, d in r['norm'].items():
                if '/' in obs and d != r['norm'][obs.split('/')[0]]:
                    acc.fail('derived values after %s differ between the object and its %s' % tuple(obs.split('/')), input=key, cell=list(cell), observable=obs)
                    break
            for obs, d in r.get('reversed_order', {}).items():
                if d != base.get(obs):
                    acc.fail('%s depends on the order in which derived values are first read' % obs, input=key, cell=list(cell), observable=obs)
                    break
            if r['first'].get('atoms_order') != r['first'].get('atoms_order_again'):
                acc.fail('atoms_order changes after str()', input=key, cell=list(cell))
        acc.outcomes[base.get('str')] += 1
    keys = list(ref)
    for k in keys[:2] + keys[-2:]:
        acc.sample({'input': k, 'cells': [list(c[:2]) for c in cells], 'modes': MODES, 'observables': sorted(ref[k].get('first', {}))[:8]})
    acc.info['inputs'] = len(ref)
    acc.info['cells'] = len(cells)
    return acc


def plan(tier, seed):
    return [Stage('configuration grid', driver, None, '5 hash seeds x fresh process x {forward, reversed} input order x {first, cached, flushed, copy, copy-after}; corpus stride %d + documented group inputs + organometallic combinator + D(<=5,1)/3' % (32 if tier == 'quick' else 4))]


def replay(rec):
    # a configuration-grid violation is replayed by re-running the two cells involved on the whole input list
    cell = tuple(rec.get('cell') or (0, 'fwd', 16, 12))
    a = run_cell((0, 'fwd', cell[2], cell[3]))[1]
    b = run_cell(cell)[1]
    key = rec['input']
    same = a.get(key) == b.get(key)
    r = b.get(key, {})
    coherent = all(r.get('first') == r.get(m) for m in MODES) if 'first' in r else True
    coherent = coherent and all(r['first'].get(o) == d for o, d in r.get('reversed_order', {}).items())
    nm = r.get('norm', {})
    coherent = coherent and all(nm[o] == nm[o.split('/')[0]] for o in nm if '/' in o)
    return [] if same and coherent else [{'key': rec['key']}]
