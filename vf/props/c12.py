"""C12 -- stereo signs are permutation consistent and agree with an independent toolkit."""
import itertools

from ..core import Acc, Stage
from ..oracle import parity
from ..scope import molecules as M, inputs
from .. import chooser
from ..oracle import knownclass

META = {
    'technique': 'complete enumeration of neighbour permutations / hydrogen positions / end exchanges per centre and of SMILES spellings (choice-point explorer + RDKit roots) on the real stereo code, judged by permutation parity and by RDKit',
    'rule': 'one state per (centre, neighbour order, stored sign) / (spelling) / (stereoisomer pair) / (wedge round trip)',
    'assumptions': ['RDKit canonical isomeric SMILES or chirality-aware mutual match decides identity of stereoisomers',
                    'acyclic stereogenicity oracle: a tetrahedral carbon is stereogenic iff its four substituents (incl. H) are pairwise different as strings of a substituent alphabet'],
}

CENTRES = [('F[C@](Cl)(Br)I', 2), ('C[C@H](F)Cl', 2), ('C[C@]([H])(F)Cl', 2), ('[H][C@](C)(F)Cl', 2), ('C[C@](F)(Cl)[H]', 2), ('C[C@H]1CCCO1', 2), ('C[C@]12CC[C@H](CC1)C2', 2),
           ('N[C@@H](C)C(=O)O', 2), ('[C@H](F)(Cl)Br', 1), ('C[C@@]1(F)CC1Cl', 2)]
ALKENES = ['C/C=C/C', 'C/C=C\\C', 'F/C=C/Cl', 'C/C(F)=C/Cl', 'C/C(F)=C(Cl)/Br', 'C/C=C/C=C/C', 'C/C=C=C=C/C', 'C/C(F)=C=C=C(Cl)/C', 'C(/[H])(C)=C/F']
ALLENES = ['CC=[C@]=CC', 'CC=[C@@]=CC', 'CC(F)=[C@]=CC', 'CC(F)=[C@]=C(Cl)C', 'C[C@@]=C=C(F)C'.replace('[C@@]=C', 'C=[C@@]')]


def run_permutations(shard):
    from chython import smiles
    acc = Acc()

    def bad(what, **d):
        acc.fail(what, **d)
        acc.outcomes['FAIL ' + what] += 1
    # tetrahedral
    for s, n in CENTRES:
        m = smiles(s)
        if m.atom(n).stereo is None:
            bad('label lost on a stereogenic centre', mol=s)
            continue
        ref = list(m.stereogenic_tetrahedrons[n])
        hs = [x for x in m._bonds[n] if m.atom(x).atomic_number == 1]
        full = ref + hs          # explicit hydrogen (if any) is last in the reference order
        for stored in (True, False):
            m.atom(n)._stereo = stored
            m.flush_cache()
            # all orders of the full neighbour list (24 or 6) and, for 4-neighbour centres, all 3-subsets orders
            envs = [list(p) for p in itertools.permutations(full)]
            if len(full) == 4 and not hs:
                envs += [list(p[:3]) for p in itertools.permutations(full)]
            elif hs:   # three-atom environments name the heavy neighbours only
                envs += [list(p) for p in itertools.permutations(ref)]
            for env in envs:
                acc.states += 1
                acc.transitions += 1
                try:
                    got = m._translate_tetrahedron_sign(n, env)
                except Exception as e:
                    bad('sign translation raised %s' % type(e).__name__, mol=s, env=env)
                    break
                completed = env if len(env) == len(full) else env + [x for x in full if x not in env]
                exp = stored != parity.parity(completed, full)
                if got != exp:
                    bad('tetrahedral sign is not permutation consistent', mol=s, env=env, stored=stored, got=got, expected=exp)
                    break
                # translating a given sign INTO the molecule frame is the inverse map
                back = m._translate_tetrahedron_sign(n, env, got)
                if back != stored:
                    bad('tetrahedral sign translation is not an involution', mol=s, env=env)
                    break
        acc.outcomes[('tetra', len(full))] += 1
    acc.sample({'centres': [c[0] for c in CENTRES[:4]], 'orders': 'all 24 / 6 permutations incl. explicit-H positions', 'signs': [True, False]})
    # cis/trans and allenes: exchanging the substituent at exactly one end flips the sign
    for s in ALKENES + ALLENES:
        m = smiles(s)
        for (key, env) in list(m.stereogenic_cis_trans.items()) + [((c,), e) for c, e in m.stereogenic_allenes.items()]:
            is_allene = len(key) == 1
            if is_allene:
                c = key[0]
                if m.atom(c).stereo is None:
                    continue
                t1, t2 = m._stereo_allenes_terminals[c]
            else:
                t1, t2 = key
                i, j = m._stereo_cis_trans_centers[t1]
                if m.bond(i, j).stereo is None:
                    continue
            n0, n1, n2, n3 = env
            # substituents on each end: explicit atoms; an implicit hydrogen slot is addressed through an explicit H neighbour only
            end1 = [x for x in (n0, n2) if x is not None]
            end2 = [x for x in (n1, n3) if x is not None]
            h1 = [x for x in m._bonds[t1] if m.atom(x).atomic_number == 1]
            h2 = [x for x in m._bonds[t2] if m.atom(x).atomic_number == 1]
            end1 += [x for x in h1 if x not in end1]
            end2 += [x for x in h2 if x not in end2]
            base = None
            for a in end1:
                for b in end2:
                    acc.states += 1
                    acc.transitions += 1
                    try:
                        got = m._translate_allene_sign(c, a, b) if is_allene else m._translate_cis_trans_sign(t1, t2, a, b)
                        got_rev = got if is_allene else m._translate_cis_trans_sign(t2, t1, b, a)
                    except Exception as e:
                        bad('double-bond sign translation raised %s' % type(e).__name__, mol=s)
                        continue
                    flips = (a != end1[0]) != (b != end2[0])
                    if base is None:
                        base = got
                    if got != (base != flips):
                        bad('%s sign does not flip exactly when one end is exchanged' % ('allene' if is_allene else 'cis/trans'), mol=s, ends=[a, b])
                    if got_rev != got:
                        bad('cis/trans sign depends on the direction the bond is named', mol=s, ends=[a, b])
        acc.outcomes[('double', s.count('='))] += 1
    return acc


# stereo that exists only through a ring axis (alkylidene-cycloalkanes, ring-ring double bonds, ring-attached allenes): RDKit does not perceive it
AXIAL = ['C/C=C1/CC[C@H](C)CC1', 'C/C=C1\\CC[C@H](C)CC1', 'C1C[C@H](C)CC/C1=C/C', 'C[C@H]1CCC(CC1)=C1CC[C@H](C)CC1', 'C[C@H]1CCC(CC1)=C1CC[C@@H](C)CC1', 'CC=[C@]=C1CC[C@H](C)CC1',
         'CC=[C@@]=C1CC[C@H](C)CC1', 'C/C=C1/C[C@H](C)C1', 'F/C=C1/C[C@@H](C)C1', 'C/C=C1/CC[C@](C)(F)CC1',
         # spiro atom joining a symmetric and an unsymmetric ring, its only stereogenic partner in the symmetric ring
         'C[C@H]1CC[C@]2(CC1)CCO2', 'C[C@H]1CC[C@@]2(CC1)CCO2', 'C[C@H]1C[C@]2(C1)CCO2', 'C[C@H]1CC[C@]2(CC1)CCCN2']


def n_labels(m):
    return sum(a.stereo is not None for _, a in m.atoms()) + sum(b.stereo is not None for *_, b in m.bonds())


def rd_same_text(a, b):
    from rdkit import Chem
    from ..oracle import rdk
    ra, rb = Chem.MolFromSmiles(a), Chem.MolFromSmiles(b)
    if ra is None or rb is None:
        return None
    return rdk.same(ra, rb)


def run_spellings(shard):
    """every spelling of a molecule (own writer via chooser, RDKit via roots x renumberings): reading it and writing it canonically
    must denote, for RDKit, the same stereoisomer as the spelling itself"""
    from chython import smiles
    from rdkit import Chem, RDLogger
    RDLogger.DisableLog('rdApp.*')
    k, nsh, tier = shard
    acc = Acc()
    fam = [c[0] for c in CENTRES] + ALKENES + inputs.ring_stereo_family() + ['C[C@H](O)[C@@H](N)C(=O)O', 'C[C@H]1CC[C@H](CC1)C(C)C', 'O[C@H]1[C@H](O)[C@@H](O)[C@H]1O', 'C[C@H](/C=C/C)O',
                                                                             'C[C@H](O)/C=C\\[C@@H](C)N', 'C1C[C@H]2CC[C@@H]1C2', 'C[C@@H]1CC[C@@]2(C1)CCCO2'] + AXIAL + inputs.interdependent_family()
    tri = inputs.interdependent_trisubstituted()
    if tier == 'thorough':
        fam += M.corpus(stride=8)
    else:
        fam += [s for s in M.corpus(stride=16) if '@' in s or '/' in s]
    for i, s in enumerate(fam):
        if i % nsh != k:
            continue
        rd0 = Chem.MolFromSmiles(s)
        if rd0 is None:
            acc.ood['rdkit rejects'] += 1
            continue
        from ..oracle import rdk
        if rdk.noncarbon_stereo(rd0):
            acc.ood['non-carbon stereocentre'] += 1
            continue
        try:
            m = smiles(s)
        except Exception:
            acc.ood['chython rejects'] += 1
            continue
        if s in tri and n_labels(m) != tri[s]:
            acc.fail('centre between two equal tri-substituted double bonds: label kept although the arms agree, or dropped although they differ :: %s' % s, mol=s, got=n_labels(m), expected=tri[s])
        if s in AXIAL and n_labels(m) != 2:
            # hand-asserted: both marks of these texts sit on elements that are stereogenic (through a ring axis / a spiro junction)
            acc.fail('a mark on a stereogenic element is dropped when the text is read (ring-axis / spiro family) :: %s' % s, mol=s, got=n_labels(m), expected=2)
        texts = {}
        n = len(m)
        # spellings with atom maps whose numbers run against the writing order (the reader must go by the position in the string)
        for shift in (1, 2):
            try:
                c_ = m.copy()
                nn = list(c_)
                c_.remap({x: x + 1000 for x in nn})
                c_.remap({x + 1000: y for x, y in zip(nn, nn[shift:] + nn[:shift] if shift == 1 else nn[::-1])})
                mt = format(c_, 'm')
                import re as _re
                if not _re.search(r'@[^\]]*H[^\]]*:|@[^\]]*:', mt):
                    continue
                texts.setdefault(mt, ('own', ['mapped', shift]))
            except Exception:
                pass
        for text, order, script in chooser.explore(m, 'r', bound=None if n <= 7 else (2 if n <= 10 else 1), limit=300):
            texts.setdefault(text, ('own', list(script)))
        nat = rd0.GetNumAtoms()
        perms = [list(range(nat)), list(range(nat))[::-1]] + [list(range(j, nat)) + list(range(j)) for j in range(1, nat, max(1, nat // 4))]
        for p in perms:
            r2 = Chem.RenumberAtoms(rd0, p)
            for root in range(0, nat, max(1, nat // 8)):
                try:
                    texts.setdefault(Chem.MolToSmiles(r2, rootedAtAtom=root, canonical=False), ('rdkit', None))
                except Exception:
                    pass
        for text, (src, script) in texts.items():
            acc.states += 1
            acc.transitions += 2
            # the spelling must denote the original molecule for RDKit (checks the WRITER when src == own)
            same = rd_same_text(text, s)
            if same is False:
                tg = knownclass.TAG if knownclass.ct_closure(text) else ''
                acc.fail('a spelling written by the library denotes a different stereoisomer for RDKit%s :: %s' % (tg, s) if src == 'own' else 'harness: rdkit spelling differs :: %s' % s,
                         mol=s, text=text, script=script)
                continue
            # reading it (checks the READER) and writing canonically must again denote the same molecule
            try:
                c = smiles(text)
                out = str(c)
            except Exception as e:
                acc.fail('spelling cannot be read: %s :: %s' % (type(e).__name__, s), mol=s, text=text)
                continue
            same = rd_same_text(out, s)
            if same is False:
                tg = knownclass.TAG if (knownclass.ct_closure(out) or knownclass.ct_closure(text)) else ''
                acc.fail('reading a %s spelling changes the configuration (judged by RDKit)%s :: %s' % (src, tg, s), mol=s, text=text, got=out, script=script)
            elif src == 'own' and not knownclass.ct_closure(text):
                # stereogenicity does not depend on the numbering: a spelling that carries every label is read back with the same number of labels
                if n_labels(c) != n_labels(m):
                    acc.fail('number of stereo labels changes when the library reads its own spelling (stereogenic set depends on atom numbering) :: %s' % s, mol=s, text=text,
                             got=n_labels(c), expected=n_labels(m), script=script)
            acc.outcomes[src] += 1
        if i < 2:
            acc.sample({'molecule': s, 'spellings': len(texts)})
    return acc


def run_isomers(shard):
    """all 2^s label combinations: chython == between two of them iff RDKit says same molecule; labels only on stereogenic centres"""
    from chython import smiles
    from rdkit import Chem, RDLogger
    RDLogger.DisableLog('rdApp.*')
    acc = Acc()
    templates = ['C[C{0}H](O)[C{1}H](O)C', 'C[C{0}H](O)C[C{1}H](O)C', 'C[C{0}H](O)[C{1}H](N)C', 'C[C{0}H]1CC[C{1}H](C)CC1', 'C[C{0}H]1C[C{1}H](C)C1', 'O[C{0}H]1[C{1}H](O)[C{2}H]1O',
                 'C[C{0}H](F)/C=C/[C{1}H](F)C', 'C[C{0}H](O)[C{1}H](O)[C{2}H](O)C', 'C[C{0}H]1CC[C{1}H](C)[C{2}H](C)C1', 'N[C{0}H](C)C(=O)N[C{1}H](C)C(=O)O', 'C[C{0}H]1CCC[C{1}]12CCCO2',
                 'C[C{0}H](O)[C{1}H](O)[C{2}H](O)[C{3}H](O)C']
    for t in templates:
        s_count = t.count('{')
        combos = list(itertools.product(('@', '@@'), repeat=s_count))
        mols = []
        for cmb in combos:
            txt = t.format(*cmb)
            try:
                mols.append((txt, smiles(txt), Chem.MolFromSmiles(txt)))
            except Exception as e:
                acc.fail('stereoisomer spelling cannot be read: %s' % type(e).__name__, mol=txt)
        for (t1, m1, r1), (t2, m2, r2) in itertools.combinations(mols, 2):
            acc.states += 1
            acc.transitions += 1
            from ..oracle import rdk
            same_rd = rdk.same(r1, r2)
            same_ch = (m1 == m2)
            if same_ch and not same_rd:
                acc.fail('two different stereoisomers compare equal :: %s' % t, mol=t1, other=t2)
            elif same_rd and not same_ch:
                acc.ood['same molecule, different canonical strings (C01 exclusion i: pseudo-asymmetric / meso spelling)'] += 1
            acc.outcomes[(same_rd, same_ch)] += 1
    acc.sample({'templates': templates[:4], 'labels': 'all 2^s combinations, all pairs'})
    # mirror images / E-Z never equal
    for a, b in (('C[C@H](F)Cl', 'C[C@@H](F)Cl'), ('C/C=C/C', 'C/C=C\\C'), ('F[C@](Cl)(Br)I', 'F[C@@](Cl)(Br)I'), ('CC=[C@]=CF', 'CC=[C@@]=CF'), ('C[C@H]1CCCO1', 'C[C@@H]1CCCO1')):
        acc.states += 1
        acc.transitions += 1
        if smiles(a) == smiles(b) or hash(smiles(a)) == hash(smiles(b)) and str(smiles(a)) == str(smiles(b)):
            acc.fail('mirror-image / E-Z pair compares equal', mol=a, other=b)
    # stereogenicity: acyclic C(a)(b)(c)(d) over a substituent alphabet; label survives iff all four differ
    subs = ['', 'C', 'CC', 'O', 'N', 'F', 'Cl', 'C=O']
    for combo in itertools.combinations_with_replacement(subs, 4):
        if combo.count('') > 1:
            continue
        rest = [x for x in combo if x]
        h = 'H' if '' in combo else ''
        txt = '[C@%s](%s)' % (h, ')('.join(rest[:-1])) + rest[-1] if len(rest) > 1 else None
        if txt is None:
            continue
        acc.states += 1
        acc.transitions += 1
        try:
            m = smiles(txt)
        except Exception as e:
            acc.fail('labelled centre cannot be read: %s' % type(e).__name__, mol=txt)
            continue
        labelled = m.atom(1).stereo is not None
        stereogenic = len(set(combo)) == 4
        if labelled != stereogenic:
            acc.fail('stereo label kept on a non-stereogenic centre' if labelled else 'stereo label dropped from a stereogenic centre', mol=txt)
        acc.outcomes[('stereogenic', stereogenic)] += 1
    # double bonds inside rings: every ring size 3..12, E and Z spelling: labelled iff RDKit keeps the bond stereo; E == Z iff RDKit says so
    for r in range(3, 13):
        pair = []
        for mark in ('/', '\\'):
            txt = 'C1' + 'C' * (r - 4) + '/C=C' + mark + 'C1' if r >= 4 else 'C1/C=C' + mark + '1'
            if r == 3:
                txt = 'C1C=C1'
            acc.states += 1
            acc.transitions += 1
            try:
                m = smiles(txt)
                rd = Chem.MolFromSmiles(txt)
            except Exception as e:
                acc.fail('ring double bond spelling cannot be read: %s' % type(e).__name__, mol=txt)
                continue
            if rd is None:
                continue
            labelled = any(bd.stereo is not None for *_, bd in m.bonds())
            rd_lab = any(b.GetStereo() not in (Chem.BondStereo.STEREONONE, Chem.BondStereo.STEREOANY) for b in rd.GetBonds())
            if labelled != rd_lab:
                acc.fail('cis/trans label in a ring of size %d: library %s, RDKit %s' % (r, 'keeps it' if labelled else 'drops it', 'keeps it' if rd_lab else 'drops it'), mol=txt)
            pair.append((txt, m, rd))
        if len(pair) == 2:
            from ..oracle import rdk
            if (pair[0][1] == pair[1][1]) != rdk.same(pair[0][2], pair[1][2]):
                acc.fail('E/Z ring double bond pair: equality differs from RDKit (ring size %d)' % r, mol=pair[0][0], other=pair[1][0])
    # double bonds: label survives iff both ends carry two different substituents
    for a, b, c, d in itertools.product(['', 'C', 'F'], repeat=4):
        left = [x for x in (a, b) if x]
        right = [x for x in (c, d) if x]
        if not left or not right:
            continue
        lt = ('%s/' % left[0]) + 'C' + ('(\\%s)' % left[1] if len(left) > 1 else '')
        rt = 'C' + ('(/%s)' % right[1] if len(right) > 1 else '') + ('/%s' % right[0])
        txt = lt + '=' + rt
        acc.states += 1
        acc.transitions += 1
        try:
            m = smiles(txt)
        except Exception as e:
            acc.fail('labelled double bond cannot be read: %s' % type(e).__name__, mol=txt)
            continue
        labelled = any(bd.stereo is not None for *_, bd in m.bonds())
        stereogenic = a != b and c != d
        if labelled != stereogenic:
            acc.fail('cis/trans label kept on a non-stereogenic double bond' if labelled else 'cis/trans label dropped from a stereogenic double bond', mol=txt)
    return acc


def run_wedges(shard):
    """_wedge_map -> add_wedge round trip on RDKit 2D coordinates; the written MolBlock is read by RDKit as the same stereoisomer"""
    from chython import smiles
    from rdkit import Chem, RDLogger
    from rdkit.Chem import AllChem
    RDLogger.DisableLog('rdApp.*')
    k, nsh, tier = shard
    acc = Acc()
    fam = [c[0] for c in CENTRES if '[H]' not in c[0]] + inputs.ring_stereo_family()[::2] + ['C[C@H](O)[C@@H](N)C(=O)O', 'C[C@H]1CC[C@H](CC1)C(C)C', 'CC=[C@]=CC', 'CC(F)=[C@]=C(Cl)C',
                                                                                              'C[C@H](/C=C/C)O', 'C1C[C@H]2CC[C@@H]1C2']
    fam += [s for s in M.corpus(stride=8 if tier == 'quick' else 2) if '@' in s]
    for i, s in enumerate(fam):
        if i % nsh != k:
            continue
        rd = Chem.MolFromSmiles(s)
        if rd is None:
            continue
        from ..oracle import rdk
        if rdk.noncarbon_stereo(rd):
            acc.ood['non-carbon stereocentre'] += 1
            continue
        try:
            m = smiles(s)
        except Exception:
            continue
        if len(m) != rd.GetNumAtoms():
            continue
        AllChem.Compute2DCoords(rd)
        conf = rd.GetConformer()
        for idx, (n, a) in enumerate(m.atoms()):
            p = conf.GetAtomPosition(idx)
            a.xy = (p.x, p.y)
        m.flush_cache()
        acc.states += 1
        acc.transitions += 3
        before = {n: a.stereo for n, a in m.atoms() if a.stereo is not None}
        try:
            wedges = list(m._wedge_map)
        except Exception as e:
            acc.fail('_wedge_map raised %s :: %s' % (type(e).__name__, s), mol=s)
            continue
        c = m.copy()
        for n, a in c.atoms():
            a._stereo = None
        c.flush_cache()
        try:
            for n, k_, mark in wedges:
                c.add_wedge(n, k_, mark)
        except Exception as e:
            acc.fail('add_wedge of an own wedge raised %s :: %s' % (type(e).__name__, s), mol=s, wedges=[list(w) for w in wedges])
            continue
        after = {n: a.stereo for n, a in c.atoms() if a.stereo is not None}
        if after != before:
            acc.fail('wedge round trip does not restore the atom signs :: %s' % s, mol=s, wedges=[list(w) for w in wedges], before=before, after=after)
            continue
        # MolBlock written by chython, read by RDKit
        try:
            import io
            from chython.files import SDFWrite
            buf = io.StringIO()
            with SDFWrite(buf) as w:
                w.write(m)
            rb = Chem.MolFromMolBlock(buf.getvalue().split('$$$$')[0])
        except Exception as e:
            acc.fail('writing a MolBlock raised %s :: %s' % (type(e).__name__, s), mol=s)
            continue
        if rb is None:
            acc.ood['rdkit cannot read the MolBlock'] += 1
        elif not rdk.same(rb, Chem.MolFromSmiles(s)):
            only_ct = Chem.MolToSmiles(rb, isomericSmiles=False) == Chem.MolToSmiles(Chem.MolFromSmiles(s), isomericSmiles=False)
            acc.fail('RDKit derives a different configuration from the written wedges :: %s' % s, mol=s, got=Chem.MolToSmiles(rb), constitution_same=only_ct)
        acc.outcomes[len(wedges)] += 1
        if i < 2:
            acc.sample({'molecule': s, 'wedges': [list(w) for w in wedges]})
    return acc


WEDGE_ALLENES = ['CC=[C@]=CC', 'CC=[C@@]=CC', 'CC(F)=[C@]=C(Cl)C', 'CC(F)=[C@@]=C(Cl)C', 'CC(F)=[C@]=CCl', 'FC=[C@]=C(Cl)Br', 'CC=[C@]=C(Cl)C', 'OC(C)=[C@]=C(N)CC', 'CC(C)C=[C@@]=C(C)CC', 'C1CCCC(C)=[C@]=C1']
WEDGE_TETRA = ['C[C@H](F)Cl', 'F[C@](Cl)(Br)I', 'C[C@](N)(O)F', 'N[C@@H](C)C(=O)O', 'C[C@H]1CCCO1', 'C[C@]1(F)CCCO1', 'CC[C@H](C)O', 'C[C@H](O)c1ccccc1', 'C[C@@H]1CC[C@H](O)CC1', 'C[C@H](N)[C@@H](O)C',
               'C[C@]12CCCC[C@H]1OCC2', 'O[C@H]1CCC[C@@H]1C', 'C[C@@H](CC)C(C)(C)C', 'C[C@H](C#N)C=C']


def _rd_layout(s):
    from rdkit import Chem
    from rdkit.Chem import AllChem
    rd = Chem.MolFromSmiles(s)
    AllChem.Compute2DCoords(rd)
    conf = rd.GetConformer()
    return rd, [(conf.GetAtomPosition(i).x, conf.GetAtomPosition(i).y) for i in range(rd.GetNumAtoms())]


def run_wedge_choices(shard):
    """EVERY wedge that can be drawn at a centre (every substituent x up/down), not only the library's own choice.
    allenes: geometric class oracle (the eight wedges fall into two classes by mark x side of the substituent x terminal); tetrahedra: RDKit derives the configuration from the same wedge"""
    from chython import smiles
    from rdkit import Chem, RDLogger
    RDLogger.DisableLog('rdApp.*')
    kind, tier = shard
    acc = Acc()
    if kind == 'allene':
        for s in WEDGE_ALLENES:
            m = smiles(s)
            rd, xy = _rd_layout(s)
            if len(m) != len(xy):
                continue
            for (n, a), p in zip(m.atoms(), xy):
                a.xy = p
            m.flush_cache()
            centres = [n for n, a in m.atoms() if a.stereo is not None and n in m._stereo_allenes_terminals]
            if len(centres) != 1:
                acc.ood['allene text without a labelled centre after reading: %s' % s] += 1
                continue
            c = centres[0]
            t1, t2 = m._stereo_allenes_terminals[c]
            chain = set(m._stereo_allenes_paths[c]) if hasattr(m, '_stereo_allenes_paths') else None
            pos = dict(zip(list(m), xy))
            ax = (pos[t2][0] - pos[t1][0], pos[t2][1] - pos[t1][1])
            results = {}
            for t, flip in ((t1, 1), (t2, -1)):
                inner = [x for x in m._bonds[t] if m._bonds[t][x].order == 2]
                for x in m._bonds[t]:
                    if x in inner or m.atom(x).atomic_number == 1:
                        continue
                    v = (pos[x][0] - pos[t][0], pos[x][1] - pos[t][1])
                    cr = ax[0] * v[1] - ax[1] * v[0]
                    if abs(cr) < 1e-6:
                        acc.ood['substituent collinear with the allene axis in the layout'] += 1
                        continue
                    side = 1 if cr > 0 else -1
                    for mark in (1, -1):
                        acc.states += 1
                        acc.transitions += 1
                        cc = m.copy()
                        for _, a in cc.atoms():
                            a._stereo = None
                        cc.flush_cache()
                        try:
                            cc.add_wedge(t, x, mark)
                        except Exception as e:
                            acc.fail('add_wedge on an allene substituent raised %s' % type(e).__name__, mol=s, wedge=[t, x, mark])
                            continue
                        results[(t, x, mark)] = (flip * mark * side, cc.atom(c).stereo)
            by_class = {}
            for w, (chi, sg) in results.items():
                by_class.setdefault(chi, set()).add(sg)
            acc.outcomes[tuple(sorted((k_, tuple(sorted(map(str, v)))) for k_, v in by_class.items()))] += 1
            if any(None in v for v in by_class.values()):
                acc.fail('a wedge on an allene substituent assigns no configuration', mol=s, results={str(k_): str(v) for k_, v in results.items()})
            elif any(len(v) > 1 for v in by_class.values()) or (len(by_class) == 2 and by_class[1] == by_class[-1]):
                acc.fail('wedges that denote the same arrangement of an allene give different configurations (or mirror-image wedges the same)', mol=s,
                         results={str(k_): [chi, str(sg)] for k_, (chi, sg) in results.items()})
            else:
                # anchor: the library's own wedge restores the stored sign
                own = [w for w in m._wedge_map if w[0] in (t1, t2)]
                for (n_, k_, mk) in own:
                    if (n_, k_, mk) in results and results[(n_, k_, mk)][1] != m.atom(c).stereo:
                        acc.fail('own wedge of an allene does not restore its sign', mol=s, wedge=[n_, k_, mk])
        acc.sample({'allenes': WEDGE_ALLENES[:4]})
        return acc
    fam = list(WEDGE_TETRA)
    if tier == 'thorough':
        fam += [s for s in M.corpus(stride=16) if '@' in s][:150]
    for s in fam:
        rd0 = Chem.MolFromSmiles(s)
        if rd0 is None:
            continue
        flat = Chem.MolToSmiles(rd0, isomericSmiles=False)
        try:
            m = smiles(s)
        except Exception:
            continue
        rd, xy = _rd_layout(s)
        if len(m) != len(xy):
            continue
        from ..oracle import rdk
        if rdk.noncarbon_stereo(rd0):
            acc.ood['non-carbon stereocentre'] += 1
            continue
        nums = list(m)
        for n, p in zip(nums, xy):
            m.atom(n).xy = p
        m.flush_cache()
        centres = [n for n, a in m.atoms() if a.stereo is not None and n in m.stereogenic_tetrahedrons]
        for c in centres:
            ci = nums.index(c)
            for x in m._bonds[c]:
                if m.atom(x).atomic_number == 1:
                    continue
                xi = nums.index(x)
                for mark in (1, -1):
                    acc.states += 1
                    acc.transitions += 2
                    cc = m.copy()
                    for _, a in cc.atoms():
                        a._stereo = None
                    for *_, b in cc.bonds():
                        b._stereo = None
                    cc.flush_cache()
                    try:
                        cc.add_wedge(c, x, mark)
                    except Exception as e:
                        if type(e).__name__ == 'NotChiral':
                            acc.ood['centre stereogenic only through other labels'] += 1
                        else:
                            acc.fail('add_wedge on a tetrahedral centre raised %s' % type(e).__name__, mol=s, wedge=[c, x, mark])
                        continue
                    got = format(cc, '')
                    # the same drawing for RDKit
                    rw = Chem.RWMol(Chem.MolFromSmiles(s))
                    for a in rw.GetAtoms():
                        a.SetChiralTag(Chem.ChiralType.CHI_UNSPECIFIED)
                    for b in rw.GetBonds():
                        b.SetStereo(Chem.BondStereo.STEREONONE)
                        b.SetBondDir(Chem.BondDir.NONE)
                    bt = rw.GetBondBetweenAtoms(ci, xi).GetBondType()
                    rw.RemoveBond(ci, xi)
                    rw.AddBond(ci, xi, bt)
                    rw.GetBondBetweenAtoms(ci, xi).SetBondDir(Chem.BondDir.BEGINWEDGE if mark == 1 else Chem.BondDir.BEGINDASH)
                    mol = rw.GetMol()
                    cf = Chem.Conformer(mol.GetNumAtoms())
                    for i_, p in enumerate(xy):
                        cf.SetAtomPosition(i_, (p[0], p[1], 0.0))
                    mol.RemoveAllConformers()
                    mol.AddConformer(cf)
                    try:
                        Chem.SanitizeMol(mol)
                        Chem.AssignChiralTypesFromBondDirs(mol)
                        Chem.AssignStereochemistry(mol, cleanIt=True, force=True)
                        exp = Chem.MolToSmiles(mol)
                    except Exception:
                        acc.ood['rdkit cannot derive a configuration from the wedge'] += 1
                        continue
                    if '@' not in exp:
                        acc.ood['rdkit derives no configuration from this wedge'] += 1
                        continue
                    same = rd_same_text(got, exp)
                    acc.outcomes[bool(same)] += 1
                    if same is False:
                        acc.fail('configuration from a wedge differs from the one RDKit derives from the same drawing :: %s' % s, mol=s, wedge=[c, x, mark], got=got, expected=exp)
    acc.sample({'tetrahedral': fam[:4], 'wedges': 'every heavy neighbour x up/down'})
    return acc


def _star_block(elements, coords, wedge):
    """V2000 block: atom 1 = centre, atoms 2.. = neighbours; wedge = (neighbour index 2.., stereo code 1 up / 6 down)"""
    lines = ['', '  star', '', '%3d%3d  0  0  0  0  0  0  0  0999 V2000' % (len(elements), len(elements) - 1)]
    for (x, y), el in zip(coords, elements):
        lines.append('%10.4f%10.4f%10.4f %-3s 0  0  0  0  0  0  0  0  0  0  0  0' % (x, y, 0, el))
    for i in range(2, len(elements) + 1):
        lines.append('%3d%3d%3d%3d' % (1, i, 1, wedge[1] if wedge[0] == i else 0))
    lines.append('M  END')
    return '\n'.join(lines)


def run_wedge_geometry(shard):
    """hand-made drawings of one centre: three neighbours (Y, shallow Y, exact T, beyond T, fan) and four neighbours (cross, skewed, two collinear) at several rotations and
    scales x every wedge x up/down; the library reading of the MolBlock must be the stereoisomer RDKit reads from the same block"""
    import io
    import math
    from rdkit import Chem, RDLogger
    from chython.files import SDFRead
    RDLogger.DisableLog('rdApp.*')
    acc = Acc()
    shapes = []
    for ang in (60, 30, 10, 3, 0, -3, -10, -30, -60):
        a = math.radians(ang)
        shapes.append(('three neighbours, side bonds %d deg above the horizontal, stem down' % ang, ['C', 'F', 'Cl', 'Br'],
                       [(-math.cos(a), math.sin(a)), (math.cos(a), math.sin(a)), (0.0, -1.0)]))
    for name, angs in (('cross', (90, 0, 270, 180)), ('skewed cross', (100, 20, 250, 170)), ('two collinear + two on one side', (180, 0, 240, 300)), ('three in a half plane', (150, 90, 30, 270)),
                       ('zigzag ring-like', (150, 30, 210, 330))):
        shapes.append(('four neighbours, %s' % name, ['C', 'F', 'Cl', 'Br', 'I'], [(math.cos(math.radians(x)), math.sin(math.radians(x))) for x in angs]))
    for name, els, nb in shapes:
        for rot in (0, 37, 90, 180, 233):
            for scale in (1.0, 1.54, 40.0):
                r = math.radians(rot)
                pts = [(0.0, 0.0)] + [(scale * (x * math.cos(r) - y * math.sin(r)), scale * (x * math.sin(r) + y * math.cos(r))) for x, y in nb]
                for i in range(2, len(els) + 1):
                    for code in (1, 6):
                        acc.states += 1
                        acc.transitions += 2
                        blk = _star_block(els, pts, (i, code))
                        rd = Chem.MolFromMolBlock(blk)
                        if rd is None:
                            continue
                        exp = Chem.MolToSmiles(rd)
                        try:
                            got = list(SDFRead(io.StringIO(blk + '\n$$$$\n')))
                        except Exception as e:
                            acc.fail('reading a one-centre drawing raised %s :: %s' % (type(e).__name__, name), mol=name, wedge=[i, code], rotation=rot, scale=scale)
                            continue
                        if len(got) != 1:
                            acc.fail('one-centre drawing skipped :: %s' % name, mol=name, wedge=[i, code], rotation=rot, scale=scale)
                            continue
                        same = rd_same_text(str(got[0]), exp)
                        if '@' not in exp:
                            acc.ood['rdkit derives no configuration from this drawing'] += 1
                            if '@' in str(got[0]):
                                acc.outcomes['library assigns a configuration where RDKit assigns none'] += 1
                            continue
                        acc.outcomes[bool(same)] += 1
                        if same is False:
                            acc.fail('configuration read from a one-centre drawing differs from RDKit :: %s' % name, mol=name, wedge=[i, code], rotation=rot, scale=scale, got=str(got[0]), expected=exp)
    acc.sample({'shapes': [s[0] for s in shapes[:5]], 'rotations': [0, 37, 90, 180, 233], 'scales': [1.0, 1.54, 40.0]})
    return acc


def plan(tier, seed):
    return [Stage('sign permutations', run_permutations, [0], '10 tetrahedral centres x all neighbour orders (24/6, explicit H at every position, 3-subsets) x both signs; cis/trans and allenes x every end choice'),
            Stage('spellings vs RDKit', run_spellings, [(k, 64, tier) for k in range(64)], 'centres, alkenes, ring/spiro stereo family, stereo corpus: every own traversal (<=7 atoms; <=2 / <=1 deviations above) + RDKit roots x renumberings'),
            Stage('stereoisomer identity and stereogenicity', run_isomers, [0], '12 templates x all 2^s label combinations x all pairs vs RDKit; C(a)(b)(c)(d) and abC=Ccd over substituent alphabets'),
            Stage('wedge round trip', run_wedges, [(k, 32, tier) for k in range(32)], 'own wedge map -> add_wedge restores signs on RDKit 2D coordinates; RDKit reads the written MolBlock as the same stereoisomer'),
            Stage('every wedge choice', run_wedge_choices, [('allene', tier), ('tetra', tier)],
                  'every heavy substituent x up/down at 10 allenes (geometric two-class oracle) and at the centres of 14 molecules (+corpus in thorough) vs the configuration RDKit derives from the same drawing'),
            Stage('wedge geometry grid', run_wedge_geometry, [0], '14 one-centre drawings (3 neighbours from Y over exact T to fan; 4 neighbours: cross, skewed, collinear pairs, half plane) x 5 rotations x 3 scales x every wedge x up/down vs RDKit')]


def replay(rec):
    key = rec['key']
    if 'permutation' in key or 'involution' in key or 'flip' in key or 'direction' in key or 'translation raised' in key or 'label lost' in key:
        a = run_permutations(0)
    elif 'one-centre drawing' in key:
        a = run_wedge_geometry(0)
    elif 'allene' in key and 'wedge' in key:
        a = run_wedge_choices(('allene', 'quick'))
    elif 'from a wedge differs' in key or 'on a tetrahedral centre raised' in key:
        global WEDGE_TETRA
        keep = WEDGE_TETRA
        WEDGE_TETRA = [rec['mol']]
        try:
            a = run_wedge_choices(('tetra', 'quick'))
        finally:
            WEDGE_TETRA = keep
    elif 'wedge' in key or 'MolBlock' in key or 'configuration from the written' in key:
        import vf.props.c12 as me
        a = Acc()
        orig = M.corpus
        M.corpus = lambda **kw: [rec['mol']]
        try:
            for k in range(32):
                a.merge(run_wedges((k, 32, 'thorough')))
        finally:
            M.corpus = orig
    elif 'spelling' in key or 'dropped when the text is read' in key or 'tri-substituted double bonds' in key:
        orig = M.corpus
        M.corpus = lambda **kw: [rec['mol']]
        a = Acc()
        try:
            for k in range(64):
                a.merge(run_spellings((k, 64, 'thorough')))
        finally:
            M.corpus = orig
    else:
        a = run_isomers(0)
    return [f for f in a.fails if f['key'] == key]
