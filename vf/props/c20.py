"""C20 -- RDKit bridge preserves structure and configuration in both directions."""
import itertools

from ..core import Acc, Stage
from ..scope import molecules as M, graphs, inputs

META = {
    'technique': 'bounded exhaustive enumeration of molecules x atom numberings (both toolkits) through both bridge directions, judged by RDKit canonical SMILES / chirality-aware matching on one side and chython canonical SMILES on the other',
    'rule': 'one state per (molecule, numbering); transitions = bridge calls; small-scope molecules are constructed independently in both toolkits from a plain spec, stereo families and corpus from one source text',
    'assumptions': ['RDKit equality = canonical isomeric SMILES or mutual HasSubstructMatch(useChirality=True) (RDKit canonical strings are not unique on pseudo-asymmetric centres)',
                    'molecules on which the two valence models already disagree before any conversion, RDKit-rejected inputs and non-carbon stereocentres are out of the property domain'],
}

ELS = ['N', 'O', 'S', 'F', 'Cl', 'Br']


class _Lazy:
    """RDKit must not be imported in the parent before the worker pool forks"""
    def __getattr__(self, k):
        from ..oracle import rdk as _r
        return getattr(_r, k)


rdk = _Lazy()


def same_chython(acc, a, b):
    """chython-side equality: canonical strings; if they differ, RDKit reads both strings -- when it proves them the same
    molecule the difference is the documented non-uniqueness on pseudo-asymmetric centres (C01 exclusion i), not a bridge defect"""
    if a == b:
        return True
    from rdkit import Chem
    ra, rb = Chem.MolFromSmiles(a), Chem.MolFromSmiles(b)
    if ra is not None and rb is not None and rdk.same(ra, rb):
        acc.ood['chython canonical string not unique (C01 exclusion i), RDKit proves identity'] += 1
        return True
    return False


def csig(a, n=None):
    return (a.atomic_symbol, a.isotope, a.charge, a.is_radical, a.implicit_hydrogens)


def norm_str(m):
    c = m.copy()
    try:
        c.kekule()
        c.thiele()
    except Exception:
        return None   # chython cannot interpret this aromatic form
    return str(c)


def check_to(acc, m, r_ref, tag, bad):
    """m: chython molecule; r_ref: the same molecule built in RDKit independently"""
    from chython.utils.rdkit import to_rdkit_molecule, from_rdkit_molecule
    acc.transitions += 1
    try:
        r = to_rdkit_molecule(m)
    except Exception as e:
        bad('to_rdkit raised %s' % type(e).__name__)
        return None
    if not rdk.same(r, r_ref):
        bad('to_rdkit changes the molecule (RDKit canonical SMILES / chirality match)', got=rdk.canon(r), expected=rdk.canon(r_ref))
        return r
    # per atom under the index map (container order -> rdkit index), map numbers, coordinates
    for i, (n, a) in enumerate(m.atoms()):
        ra = r.GetAtomWithIdx(i)
        if rdk.atom_sig(ra) != csig(a):
            bad('to_rdkit per-atom attributes differ', atom=n, got=list(rdk.atom_sig(ra)), expected=list(csig(a)))
            return r
        if ra.GetAtomMapNum() != n:
            bad('to_rdkit atom map number differs from atom number', atom=n)
            return r
        p = r.GetConformer(0).GetAtomPosition(i)
        if abs(p.x - a.x) > 1e-6 or abs(p.y - a.y) > 1e-6:
            bad('to_rdkit coordinates attached to the wrong atom', atom=n)
            return r
    for n, k, b in m.bonds():
        i, j = list(m).index(n), list(m).index(k)
        rb = r.GetBondBetweenAtoms(i, j)
        if rb is None:
            bad('to_rdkit lost a bond')
            return r
    return r


def check_from(acc, r, m_ref_str, tag, bad):
    from chython.utils.rdkit import from_rdkit_molecule
    acc.transitions += 1
    try:
        m = from_rdkit_molecule(r)
    except Exception as e:
        bad('from_rdkit raised %s' % type(e).__name__)
        return None
    got = norm_str(m)
    if got is None:
        # RDKit-aromatic ring outside chython's aromaticity model (e.g. cyclopropenylium): compare through RDKit's own Kekule form
        from rdkit import Chem
        rk = Chem.Mol(r)
        Chem.Kekulize(rk, clearAromaticFlags=True)
        acc.ood['rdkit-aromatic ring outside chython aromaticity model (compared via RDKit Kekule form)'] += 1
        try:
            got = norm_str(from_rdkit_molecule(rk))
        except Exception as e:
            bad('from_rdkit raised %s' % type(e).__name__)
            return None
    if m_ref_str is not None and not same_chython(acc, got, m_ref_str):
        bad('from_rdkit changes the molecule (chython canonical SMILES)', got=got, expected=m_ref_str)
        return m
    for i, (n, a) in enumerate(m.atoms()):
        ra = r.GetAtomWithIdx(i)
        if rdk.atom_sig(ra) != csig(a):
            bad('from_rdkit per-atom attributes differ', atom=n, got=list(csig(a)), expected=list(rdk.atom_sig(ra)))
            return m
        if (a._parsed_mapping or 0) != ra.GetAtomMapNum():
            bad('from_rdkit loses the atom map number', atom=n)
            return m
        if r.GetNumConformers():
            p = r.GetConformer(0).GetAtomPosition(i)
            if abs(p.x - a.x) > 1e-6 or abs(p.y - a.y) > 1e-6:
                bad('from_rdkit coordinates differ', atom=n)
                return m
    for b in r.GetBonds():
        n, k = list(m)[b.GetBeginAtomIdx()], list(m)[b.GetEndAtomIdx()]
        o = {1.0: 1, 2.0: 2, 3.0: 3, 1.5: 4}.get(b.GetBondTypeAsDouble())
        if not m.has_bond(n, k) or (o and m.bond(n, k).order != o):
            bad('from_rdkit bond order differs')
            return m
    return m


def roundtrips(acc, m, r, bad):
    from chython.utils.rdkit import to_rdkit_molecule, from_rdkit_molecule
    acc.transitions += 2
    try:
        m2 = from_rdkit_molecule(to_rdkit_molecule(m))
        s2 = norm_str(m2)
        if s2 is None:
            from rdkit import Chem
            rk = Chem.Mol(to_rdkit_molecule(m))
            Chem.Kekulize(rk, clearAromaticFlags=True)
            s2 = norm_str(from_rdkit_molecule(rk))
            acc.ood['rdkit-aromatic ring outside chython aromaticity model (compared via RDKit Kekule form)'] += 1
            m2 = m
        if not same_chython(acc, s2, norm_str(m)) or [csig(a) for _, a in m2.atoms()] != [csig(a) for _, a in m.atoms()]:
            bad('from_rdkit(to_rdkit(m)) != m', got=s2, expected=norm_str(m))
        r2 = to_rdkit_molecule(from_rdkit_molecule(r))
        if not rdk.same(r2, r):
            bad('to_rdkit(from_rdkit(r)) != r', got=rdk.canon(r2), expected=rdk.canon(r))
    except Exception as e:
        bad('round trip raised %s' % type(e).__name__)


def case_small(acc, spec, note_sample=False):
    from rdkit import Chem
    from rdkit.Chem import AllChem
    n = len(spec['atoms'])
    r0 = rdk.from_spec(spec)
    if r0 is None:
        acc.ood['rdkit rejects the molecule'] += 1
        return
    m0 = M.to_chython(spec)
    if m0.check_valence() or [a.implicit_hydrogens for _, a in m0.atoms()] != [a.GetTotalNumHs() for a in r0.GetAtoms()]:
        acc.ood['valence models differ before any conversion'] += 1
        return
    AllChem.Compute2DCoords(r0)
    tag = spec['tag']
    perms = list(itertools.permutations(range(n))) if n <= 4 else [[p[x] - 1 for x in range(1, n + 1)] for p in graphs.gen_perms(list(range(1, n + 1)))]
    ref_str = norm_str(m0)
    for p in perms:
        acc.states += 1

        def bad(what, **d):
            acc.fail(what, mol=tag, perm=list(p), **d)
            acc.outcomes['FAIL ' + what] += 1
        # chython side: atom numbers permuted AND insertion order permuted
        nums = [p[v] + 1 for v in range(n)]
        m = M.to_chython(spec, numbers=nums, atom_order=sorted(range(n), key=lambda v: nums[v]))
        for (num, a) in m.atoms():
            pos = r0.GetConformer().GetAtomPosition(nums.index(num))
            a.xy = (pos.x, pos.y)
        rr = Chem.RenumberAtoms(r0, [nums.index(x) for x in sorted(nums)])   # rdkit index i <-> i-th atom of m
        check_to(acc, m, rr, tag, bad)
        # rdkit side renumbered
        r = Chem.RenumberAtoms(r0, list(p))
        check_from(acc, r, ref_str, tag, bad)
        roundtrips(acc, m, r, bad)
    acc.outcomes[(n, len(spec['bonds']))] += 1
    if note_sample:
        acc.sample({'mol': tag, 'numberings': len(perms)})


def run_small(shard):
    k, nsh, tier = shard
    acc = Acc()
    nmax, kk = (4, 2) if tier == 'quick' else (5, 2)
    for i, spec in enumerate(M.scope(nmax, kk, elements=ELS, with_h=False, shard=k, nshards=nsh)):
        case_small(acc, spec, note_sample=(i < 2 and k == 0))
    return acc


def text_cases(tier):
    out = [('stereo', s) for s in inputs.ring_stereo_family()]
    out += [('interdependent', s) for s in inputs.interdependent_family()]
    out += [('isotopic hydrogen atom', s) for s in inputs.isoh_family()]
    out += [('any-bond', s) for s in ('N~[Cu]', 'C~[Fe]~C', 'N~[Cu]~N.O', 'CN(C)~[Pd](Cl)Cl', 'C1CC1~[Cu]', 'O=C~[Ni](~C=O)~C=O', 'CC#N~[Cu]Cl')]
    out += [('hydride', s) for s in ('[BH4-]', 'N#C[BH3-]', 'CC1(C)OBOC1(C)C', '[AlH4-]', 'CC(C)C[AlH]CC(C)C', 'CCCC[SnH](CCCC)CCCC', '[NH3+][BH3-]', 'C[SiH3]', '[GeH4]', 'CB(C)C', 'OB(O)c1ccccc1',
                                     'C1CCC2CCCC1B2', '[LiH]', '[NaH]', 'C[PH2]', '[AsH3]', 'C[SeH]', '[MgH2]', 'C[ZnH]', 'CC[GaH2]')]
    # a stereo mark on sulfur / phosphorus / nitrogen, which the library does not treat as stereogenic, next to carbon centres and double bonds that it does:
    # RDKit -> chython must carry the carbon configuration wherever the hetero centre sits in the atom order (both orders are spelled out)
    out += [('hetero-centre', s) for s in ('C[S@](=O)C[C@H](N)C(O)=O', 'OC(=O)[C@@H](N)C[S@](C)=O', 'C[S@@](=O)C[C@H](N)C(O)=O', 'C[C@H](O)[P@](C)(=O)c1ccccc1', 'O=[P@](C)(c1ccccc1)[C@H](C)O',
                                           'C[S@](=O)/C=C/[C@H](C)O', 'C[C@H](O)/C=C/[S@](C)=O', 'C[N@+](CC)(CCC)C[C@H](C)O', 'C[C@H](O)C[N@+](C)(CC)CCC', 'C[S@](=O)[C@H](C)[C@@H](C)O', 'O[C@@H](C)[C@H](C)[S@](C)=O',
                                           'CC[S@](=O)C1C[C@H](C)C[C@@H](C)C1')]
    out += [('corpus', s) for s in M.corpus(stride=8 if tier == 'quick' else 1)]
    return out


def run_text(shard):
    from rdkit import Chem
    from rdkit.Chem import AllChem
    from chython import smiles
    k, nsh, tier = shard
    acc = Acc()
    for i, (fam, s) in enumerate(text_cases(tier)):
        if i % nsh != k:
            continue
        r0 = Chem.MolFromSmiles(s)
        if r0 is None:
            acc.ood['rdkit rejects the molecule'] += 1
            continue
        if rdk.noncarbon_stereo(r0) and fam != 'hetero-centre':
            acc.ood['non-carbon stereocentre'] += 1
            continue
        try:
            m0 = smiles(s)
        except Exception:
            acc.ood['chython rejects the molecule'] += 1
            continue
        for form in ('as written', 'kekule'):
            if form == 'kekule':
                if not any(b.GetIsAromatic() for b in r0.GetBonds()):
                    continue
                r0 = Chem.Mol(r0)
                Chem.Kekulize(r0, clearAromaticFlags=True)
                m0 = m0.copy()
                m0.kekule()
            if any(a.implicit_hydrogens is None for _, a in m0.atoms()):
                mk_ = m0.copy()
                mk_.kekule()
                mk_.thiele()
                m0 = mk_
            if [a.implicit_hydrogens for _, a in m0.atoms()] != [a.GetTotalNumHs() for a in r0.GetAtoms()]:
                acc.ood['valence models differ before any conversion'] += 1
                continue
            AllChem.Compute2DCoords(r0)
            n = r0.GetNumAtoms()
            ref_str = norm_str(m0)
            nodes = list(range(n))
            perms = [[p[x] for x in nodes] for p in graphs.gen_perms(nodes)]
            perms = perms[:: max(1, len(perms) // 8)][:9]
            for p in perms:
                acc.states += 1

                def bad(what, **d):
                    acc.fail(what, mol=s, form=form, perm=list(p), **d)
                    acc.outcomes['FAIL ' + what] += 1
                r = Chem.RenumberAtoms(r0, list(p))
                m = check_from(acc, r, ref_str, s, bad)
                if m is None:
                    continue
                if fam == 'hetero-centre':
                    # only RDKit -> chython is judged (against the library's own reading of the text): the way back cannot restore a mark the library does not hold
                    acc.ood['hetero-atom stereo mark: only the RDKit -> chython direction is defined'] += 1
                    continue
                if fam == 'any-bond':
                    # RDKit has three bond types (unspecified, zero, dative) where the library has one (order 8): RDKit -> chython must give order 8 and the molecule
                    # the library itself reads from the text; the way back cannot restore which of the three it was
                    acc.ood['bond of unspecified type: only the RDKit -> chython direction is defined'] += 1
                    if any(m.bond(list(m)[b_.GetBeginAtomIdx()], list(m)[b_.GetEndAtomIdx()]).order != 8 for b_ in r.GetBonds() if str(b_.GetBondType()) == 'UNSPECIFIED'):
                        bad('from_rdkit does not turn a bond of unspecified type into a coordinate (order 8) bond')
                    continue
                # chython molecule that came from a renumbered RDKit molecule (neighbour orders not ascending) back to RDKit
                check_to(acc, m, r, s, bad)
                mm = m.copy()
                num = list(mm)
                mm.remap(dict(zip(num, num[1:] + num[:1])))
                check_to(acc, mm, Chem.RenumberAtoms(r, list(range(n))), s, bad)
                roundtrips(acc, m, r, bad)
            acc.outcomes[(fam, form)] += 1
        if i < 2:
            acc.sample({'smiles': s, 'family': fam})
    return acc


DONORS = [('CN(C)C', 1), ('CSC', 1), ('C[Se]C', 1), ('CP(C)C', 1), ('C[As](C)C', 1), ('COC', 1), ('CC#N', 3), ('C[Te]C', 1), ('C[Sb](C)C', 1), ('CCl', 1)]
METALS = ['[Pd](Cl)Cl', '[Cu]Cl', '[Fe]', '[Sc](Cl)(Cl)Cl', '[Ni](C#O)']


def dative_texts():
    """RDKit SMILES of donor->metal complexes, donor written first and metal written first"""
    out = []
    for d, di in DONORS:
        # donor atom = atom index di of the donor text; rewrite so the dative bond starts at it
        for mt in METALS:
            if di == 1:
                head, tail = d[:d.index(']') + 1] if d[1] == '[' else d[:2], None
            # simple construction: ring-closure digit on the donor atom and on the metal
            toks = _atoms_of(d)
            donor_first = ''.join(t + ('->9' if i == di else '') for i, t in enumerate(toks)) + '.' + mt.replace(']', ']9', 1)
            metal_first = mt.replace(']', ']<-9', 1) + '.' + ''.join(t + ('9' if i == di else '') for i, t in enumerate(toks))
            out.append((donor_first, d, mt))
            out.append((metal_first, d, mt))
    return out


def _atoms_of(text):
    import re
    return re.findall(r'\[[^\]]+\]|Cl|Br|[A-Z]|[#=()]', text)


def run_extras(shard):
    """(1) stereocentres with an explicit (isotopic) hydrogen atom at every position of the neighbour list, (2) donor->metal coordinate bonds"""
    from rdkit import Chem
    from rdkit.Chem import AllChem
    from chython import smiles
    from chython.utils.rdkit import to_rdkit_molecule, from_rdkit_molecule
    part, tier = shard
    acc = Acc()
    if part == 'explicit-h':
        subs = ['[2H]', 'C', 'O', 'CC']
        texts = []
        for p in itertools.permutations(subs):
            for mark in ('@', '@@'):
                texts.append('%s[C%s](%s)(%s)%s' % (p[0], mark, p[1], p[2], p[3]))
                texts.append('[C%s](%s)(%s)(%s)%s' % (mark, p[0], p[1], p[2], p[3]))
        # (a centre carrying both an isotopic H atom and an implicit H is not stereogenic for the library's reader: outside this bridge check)
        texts += ['[2H][C@]1(C)CCCO1', 'C[C@]1([2H])CCCO1', '[3H][C@](F)(Cl)Br', 'F[C@]([3H])(Cl)Br']
        for s in texts:
            r0 = Chem.MolFromSmiles(s)
            try:
                m0 = smiles(s)
            except Exception:
                acc.ood['chython rejects the molecule'] += 1
                continue
            if r0 is None or r0.GetNumAtoms() != len(m0):
                acc.ood['rdkit folds or rejects the explicit hydrogen'] += 1
                continue
            AllChem.Compute2DCoords(r0)
            n = r0.GetNumAtoms()
            ref_str = norm_str(m0)
            nodes = list(range(n))
            perms = [[p[x] for x in nodes] for p in graphs.gen_perms(nodes)]
            for p in perms:
                acc.states += 1

                def bad(what, **d):
                    acc.fail(what + ' :: explicit hydrogen on a stereocentre', mol=s, form='extras', perm=list(p), **d)
                    acc.outcomes['FAIL ' + what] += 1
                r = Chem.RenumberAtoms(r0, list(p))
                m = check_from(acc, r, ref_str, s, bad)
                if m is None:
                    continue
                check_to(acc, m, r, s, bad)
                roundtrips(acc, m, r, bad)
            acc.outcomes['explicit-h'] += 1
        acc.sample({'texts': texts[:4], 'numberings': 'GEN family'})
        return acc
    # dative bonds
    for text, d, mt in dative_texts():
        r0 = Chem.MolFromSmiles(text)
        if r0 is None:
            acc.ood['rdkit rejects the complex'] += 1
            continue
        dat = [b for b in r0.GetBonds() if b.GetBondType() == Chem.BondType.DATIVE]
        if len(dat) != 1:
            acc.ood['no dative bond after parsing'] += 1
            continue
        n = r0.GetNumAtoms()
        nodes = list(range(n))
        perms = [[p[x] for x in nodes] for p in graphs.gen_perms(nodes)]
        perms = perms[:: max(1, len(perms) // 6)][:7]
        for p in perms:
            acc.states += 1
            acc.transitions += 2
            r = Chem.RenumberAtoms(r0, list(p))
            db = [b for b in r.GetBonds() if b.GetBondType() == Chem.BondType.DATIVE][0]
            donor, metal = db.GetBeginAtomIdx(), db.GetEndAtomIdx()

            def bad(what, **dd):
                acc.fail(what + ' :: coordinate bond %s' % r.GetAtomWithIdx(donor).GetSymbol(), mol=text, form='dative', perm=list(p), **dd)
                acc.outcomes['FAIL ' + what] += 1
            try:
                m = from_rdkit_molecule(r)
            except Exception as e:
                bad('from_rdkit raised %s' % type(e).__name__)
                continue
            nums = list(m)
            if not m.has_bond(nums[donor], nums[metal]) or m.bond(nums[donor], nums[metal]).order != 8:
                bad('from_rdkit does not turn the dative bond into a coordinate bond')
                continue
            hs = [a.GetTotalNumHs() for a in r.GetAtoms()]
            if [a.implicit_hydrogens for _, a in m.atoms()] != hs:
                acc.ood['valence models differ before any conversion'] += 1
                continue
            if [(a.atomic_symbol, a.charge) for _, a in m.atoms()] != [(a.GetSymbol(), a.GetFormalCharge()) for a in r.GetAtoms()]:
                bad('from_rdkit per-atom attributes differ')
                continue
            try:
                r2 = to_rdkit_molecule(m)
            except Exception as e:
                bad('to_rdkit raised %s' % type(e).__name__)
                continue
            d2 = [b for b in r2.GetBonds() if b.GetBondType() == Chem.BondType.DATIVE]
            if len(d2) != 1 or (d2[0].GetBeginAtomIdx(), d2[0].GetEndAtomIdx()) != (donor, metal):
                bad('to_rdkit reverses or loses the donor->metal direction', got=[(b.GetBeginAtomIdx(), b.GetEndAtomIdx()) for b in d2], expected=[donor, metal])
                continue
            if [a.GetTotalNumHs() for a in r2.GetAtoms()] != hs:
                bad('to_rdkit changes hydrogen counts', got=[a.GetTotalNumHs() for a in r2.GetAtoms()], expected=hs)
                continue
            if not rdk.same(r2, r):
                bad('to_rdkit(from_rdkit(r)) != r', got=rdk.canon(r2), expected=rdk.canon(r))
                continue
            try:
                m2 = from_rdkit_molecule(r2)
                if str(m2) != str(m):
                    bad('from_rdkit(to_rdkit(m)) != m', got=str(m2), expected=str(m))
            except Exception as e:
                bad('round trip raised %s' % type(e).__name__)
            acc.outcomes[('dative', r.GetAtomWithIdx(donor).GetSymbol(), donor < metal)] += 1
    acc.sample({'donors': [d for d, _ in DONORS], 'metal fragments': METALS})
    return acc


def plan(tier, seed):
    return [Stage('small scope, both toolkits built from spec', run_small, [(k, 64, tier) for k in range(64)],
                  'D(<=%d,2) over C,N,O,S,F,Cl,Br with charges/isotopes/radicals x ALL numberings on both sides' % (4 if tier == 'quick' else 5)),
            Stage('stereo family + corpus from text', run_text, [(k, 64, tier) for k in range(64)],
                  'ring/double-bond stereo family and corpus stride %d, as written and Kekule, x 9 GEN renumberings on the RDKit side' % (8 if tier == 'quick' else 1)),
            Stage('explicit hydrogens on stereocentres; donor->metal bonds', run_extras, [('explicit-h', tier), ('dative', tier)],
                  'isotopic H atom at every position of the neighbour list (all 24 orders x both marks x middle/first atom) x GEN numberings; 10 donors x 5 metal fragments x donor-first/metal-first x 7 numberings')]


def replay(rec):
    tag = rec['mol']
    if rec.get('form') in ('extras', 'dative'):
        acc = run_extras(('explicit-h' if rec['form'] == 'extras' else 'dative', 'quick'))
    elif tag.startswith('n'):
        acc = Acc()
        for spec in M.scope(5, 2, elements=ELS, with_h=False):
            if spec['tag'] == tag:
                case_small(acc, spec)
                break
    else:
        import vf.props.c20 as me
        orig = me.text_cases
        fam_ = next((f for f, t in orig('thorough') if t == tag), 'replay')
        me.text_cases = lambda tier: [(fam_, tag)]
        try:
            acc = run_text((0, 1, 'thorough'))
        finally:
            me.text_cases = orig
    return [f for f in acc.fails if f['key'] == rec['key'] and f.get('mol') == tag]
