"""C02 -- SMILES write then read is lossless (under the written atom order); canonical strings never collide."""
import itertools

from ..core import Acc, Stage
from ..oracle import iso
from ..scope import molecules as M, inputs
from .. import chooser
from ..oracle import knownclass

META = {
    'technique': 'bounded exhaustive enumeration of molecules x format-option subsets x traversals of the random-order writer (choice-point explorer); re-read molecule compared atom by atom under the written order, configuration judged by RDKit; canonical-string injectivity against brute-force canonical codes',
    'rule': 'one state per (molecule, option subset, traversal); for injectivity one state per molecule of the scope',
    'assumptions': ['RDKit canonical isomeric SMILES (or chirality-aware mutual match) decides whether two texts denote the same stereoisomer',
                    'brute-force canonical code of the labelled graph (vf/oracle/iso.py) decides constitutional identity'],
}

OPTS = ['', 'a', 'A', 'm', 'h', 'aA', 'am', 'ah', 'Am', 'Ah', 'mh', 'aAm', 'aAh', 'amh', 'Amh', 'aAmh']


def raw_atom(a):
    return (a.atomic_symbol, a.isotope, a.charge, a.is_radical, a.implicit_hydrogens)


def stereo_descr(m):
    """{centre: sign relative to ascending-numbered neighbours}; tetrahedral, allene and cis/trans labels"""
    out = {}
    for n, a in m.atoms():
        if a.stereo is None:
            continue
        if n in m.stereogenic_tetrahedrons:
            env = sorted(x for x in m._bonds[n])
            hs = [x for x in env if m.atom(x).atomic_number == 1]
            heavy = [x for x in env if m.atom(x).atomic_number != 1]
            out[('t', n)] = m._translate_tetrahedron_sign(n, heavy + hs if len(heavy) + len(hs) == 4 else heavy)
        elif n in m.stereogenic_allenes:
            t1, t2 = m._stereo_allenes_terminals[n]
            if t1 > t2:
                t1, t2 = t2, t1
            env = m.stereogenic_allenes[n]
            n1 = min(x for x in m._bonds[t1] if x in env)
            n2 = min(x for x in m._bonds[t2] if x in env)
            out[('a', n)] = m._translate_allene_sign(n, n1, n2)
        else:
            out[('?', n)] = a.stereo
    for n, k, b in m.bonds():
        if b.stereo is None:
            continue
        t1, t2 = m._stereo_cis_trans_terminals[n]
        if t1 > t2:
            t1, t2 = t2, t1
        env = [x for x in m.stereogenic_cis_trans.get((t1, t2), m.stereogenic_cis_trans.get((t2, t1))) if x is not None]
        n1 = min(x for x in m._bonds[t1] if x in env)
        n2 = min(x for x in m._bonds[t2] if x in env)
        out[('ct', t1, t2)] = m._translate_cis_trans_sign(t1, t2, n1, n2)
    return out


def compare_written(acc, m, text, order, spec, bad, rd_ref):
    """text was written from m visiting atoms in `order`; read it back and compare under that order"""
    from chython import smiles
    acc.transitions += 2
    try:
        r = smiles(text)
    except Exception as e:
        bad('written SMILES cannot be read back: %s' % type(e).__name__, text=text, options=spec)
        return
    if len(r) != len(m):
        bad('read-back molecule has a different number of atoms', text=text, options=spec)
        return
    if 'm' in spec:
        back = {n: n for n in m}
        if set(r) != set(m):
            bad('atom-map numbers are not restored as atom numbers', text=text, options=spec)
            return
    else:
        back = dict(zip(list(r), order))   # parse order -> written atom
    # aromatic hetero atoms lose their hydrogen count in lower-case text unless h is given: normalise both sides
    need_norm = any(b.order == 4 for *_, b in m.bonds())
    mm, rr = m, r
    if need_norm:
        rr = r.copy()
        try:
            rr.kekule()
            rr.thiele()
        except Exception as e:
            bad('read-back aromatic molecule cannot be kekulised: %s' % type(e).__name__, text=text, options=spec)
            return
    for n2, a2 in rr.atoms():
        a1 = mm.atom(back[n2])
        if raw_atom(a1) != raw_atom(a2):
            bad('atom attributes differ after write/read', text=text, options=spec, atom=back[n2], got=list(raw_atom(a2)), expected=list(raw_atom(a1)))
            return
    e1 = {(min(a, b), max(a, b)): bd.order for a, b, bd in mm.bonds()}
    e2 = {(min(back[a], back[b]), max(back[a], back[b])): bd.order for a, b, bd in rr.bonds()}
    if e1 != e2:
        bad('bonds differ after write/read', text=text, options=spec)
        return
    # configuration under the written atom order (no canonicalisation involved): the sign of every labelled centre relative to
    # its neighbours in ascending atom number must be the same in both molecules
    c = rr.copy()
    if 'm' not in spec:
        c.remap(back)
    d1, d2 = stereo_descr(mm), stereo_descr(c)
    if d1 != d2:
        bad('configuration differs after write/read (signs relative to ascending neighbours)', text=text, options=spec,
            got=sorted(set(d2.items()) - set(d1.items()), key=repr)[:3], expected=sorted(set(d1.items()) - set(d2.items()), key=repr)[:3])
        return
    if rd_ref is not None and 'h' not in spec and 'A' not in spec and '|' not in text:
        from rdkit import Chem
        from ..oracle import rdk
        rd = Chem.MolFromSmiles(text)
        if rd is None:
            acc.ood['rdkit cannot read the written text'] += 1
        elif not rdk.same(rd, rd_ref):
            bad('another toolkit reads the written text as a different molecule', text=text, options=spec, got=rdk.canon(rd), expected=rdk.canon(rd_ref))


def check_molecule(acc, m, tag, bound, opts=OPTS, limit=400, rd_text=None):
    from rdkit import Chem, RDLogger
    RDLogger.DisableLog('rdApp.*')
    if any(a.implicit_hydrogens is None for _, a in m.atoms()) or any(b.order == 4 for *_, b in m.bonds()):
        try:
            m = m.copy()
            m.kekule()
            m.thiele()
        except Exception:
            acc.ood['not kekulisable'] += 1
            return
    if any(a.implicit_hydrogens is None for _, a in m.atoms()):
        acc.ood['valence-invalid'] += 1
        return
    rd_ref = None
    try:
        # the independent reader's view of the molecule: from the source text when there is one (not through the library's writer)
        if m.is_radical:
            rd_ref = None
        elif rd_text is not None:
            rd_ref = Chem.MolFromSmiles(rd_text.split()[0])
        elif knownclass.ct_closure(str(m)):
            rd_ref = None
        else:
            rd_ref = Chem.MolFromSmiles(str(m).split()[0])
    except Exception:
        rd_ref = None

    def bad(what, **d):
        if 'text' in d and knownclass.ct_closure(d['text']) and ('configuration differs' in what or 'another toolkit reads' in what):
            what += knownclass.TAG
        acc.fail('%s :: %s' % (what, d.get('options', '')), mol=tag, **d)
        acc.outcomes['FAIL ' + what] += 1
    # the canonical text is also reachable through the cached atom order: reading the order first must not change what str() writes
    try:
        c0 = m.copy()
        order0 = list(c0.smiles_atoms_order)
        acc.states += 1
        compare_written(acc, m, str(c0), order0, '', lambda what, **d: bad(what, variant='atom order read before str', **d), rd_ref)
    except Exception as e:
        bad('smiles_atoms_order / str raised %s' % type(e).__name__, options='')
    for spec in opts:
        acc.states += 1
        text, order = m.__format__(spec, _return_order=True) if spec else m.__format__('', _return_order=True)
        full = format(m, spec) if spec else str(m)
        compare_written(acc, m, full, list(order), spec, bad, rd_ref)
        seen = {full}
        for text, order, script in chooser.explore(m, spec + 'r', bound=bound, limit=limit):
            full = chooser.run_full(m, spec + 'r', script)
            if full in seen:
                continue
            seen.add(full)
            acc.states += 1
            compare_written(acc, m, full, order, spec + 'r', lambda what, **d: bad(what, script=list(script), **d), rd_ref)
    acc.outcomes['lossless'] += 1


def run_small(shard):
    k, nsh, tier = shard
    acc = Acc()
    nmax, kk = (5, 1) if tier == 'quick' else (5, 2)
    for i, spec in enumerate(M.scope(nmax, kk, shard=k, nshards=nsh)):
        m = M.to_chython(spec)
        if m.check_valence():
            acc.ood['valence-invalid'] += 1
            continue
        check_molecule(acc, m, spec['tag'], None, opts=OPTS if i % 4 == 0 else ['', 'a', 'mh', 'A'], limit=150)
        if i < 2 and k == 0:
            acc.sample({'mol': spec['tag'], 'options': OPTS, 'traversals': 'all'})
    return acc


def run_text(shard):
    from chython import smiles
    k, nsh, tier = shard
    acc = Acc()
    rows = [('stereo', s) for s in inputs.ring_stereo_family()]
    rows += [('special', s) for s in ('C[CH]C |^1:1|', '[CH2]CC[CH2] |^1:0,3|', 'C[O] |^1:1|', '[Cl] |^1:0|', 'O=[N]=O |^1:1|', 'C[Sn](C)C |^1:1|', '[Na] |^1:0|', '[H] |^1:0|', 'CC(C)(C)[O] |^1:4|', 'C[S] |^1:1|', '[Na+].[Cl-]', 'CC(=O)[O-].[Na+]', 'c1ccccc1.Cl', '[13CH3]C', '[2H]C([2H])C', 'c1cc[nH]c1', 'c1ccncc1',
                                      'C[N+](C)(C)C', 'F[C@](Cl)(Br)I', '[C@H](F)(Cl)Br', 'C[C@]12CC[C@H](CC1)C2', 'CC=[C@]=CC', 'C[C@@H]1CCCC[C@H]1C', 'C/C=C/C=C\\C', 'C/C=C\\1/CCCC1=O', 'C1=C/CCCCCC/1',
                                      'C[C@H]1CC[C@@H](C)CC1', 'OC[C@H]1O[C@H](O)[C@H](O)[C@@H](O)[C@@H]1O', 'C~[Fe]', '[C]~[Pd]', '[B]~[Pd]', '[P]~[Pd]', '[S](~[Cu])~[Cu]', '[C](~[Pd])~[Pd]', 'C(~[Pd])~[Pd]', '[C].[Pd]',
                                      'CC(O)=[C@]=C(N)F', 'OC(C)=[C@@]=C(N)F', 'CC(Cl)=[C@]=C(C)Br', 'FC(Cl)=[C@]=C(Br)I', 'C[C@H](O)CC.C[C@@H](O)CC', 'C[C@]12CCC(=O)C=C1CC[C@@H]1[C@@H]2CC[C@]2(C)[C@@H](O)CC[C@@H]12')]
    rows += [('interdependent', s) for s in inputs.interdependent_family()]
    rows += [('isotopic hydrogen atom on a stereo element', s) for s in inputs.isoh_family()]
    rows += [('corpus', s) for s in M.corpus(stride=32 if tier == 'quick' else 4)]
    for i, (fam, s) in enumerate(rows):
        if i % nsh != k:
            continue
        try:
            m = smiles(s)
        except Exception:
            acc.ood['unreadable'] += 1
            continue
        small = len(m) <= 9
        check_molecule(acc, m, s, None if len(m) <= 7 else (2 if small else 1), opts=OPTS if small else ['', 'a', 'amh', 'A'], limit=200 if small else 60,
                       rd_text=s if '|' not in s else None)
        if i < 2:
            acc.sample({'smiles': s})
    return acc


def run_injective(shard):
    """canonical strings never collide: chython string -> brute-force canonical code of the labelled graph must be a function"""
    k, nsh, tier = shard
    acc = Acc()
    nmax, kk = (5, 2) if tier == 'quick' else (6, 2)
    table = {}
    rev = {}
    for i, spec in enumerate(M.scope(nmax, kk)):
        if i % nsh != k:
            continue
        m = M.to_chython(spec)
        acc.states += 1
        acc.transitions += 1
        try:
            s = str(m)
        except Exception as e:
            acc.fail('canonical string raised %s' % type(e).__name__, mol=spec['tag'])
            continue
        n = len(spec['atoms'])
        hs = [a.implicit_hydrogens for _, a in m.atoms()]
        code = iso.canon_code(n, [(a, b) for a, b, o in spec['bonds']], [tuple(at) + (h,) for at, h in zip(spec['atoms'], hs)],
                              {frozenset((a, b)): o for a, b, o in spec['bonds']})
        table.setdefault(s, set()).add(code)
        rev.setdefault(code, set()).add(s)
    for s, codes in table.items():
        if len(codes) > 1:
            acc.fail('two different molecules receive the same canonical string', string=s, mol=s)
    acc.info['distinct canonical strings'] = len(table)
    acc.info['distinct canonical codes'] = len(rev)
    return acc, table


def injective_driver(pmap, tier, seed):
    acc = Acc()
    merged = {}
    for a, table in pmap(run_injective, [(k, 32, tier) for k in range(32)]):
        acc.merge(a)
        for s, codes in table.items():
            merged.setdefault(s, set()).update(codes)
    for s, codes in merged.items():
        if len(codes) > 1:
            acc.fail('two different molecules receive the same canonical string', string=s, mol=s, codes=len(codes))
    acc.info['distinct canonical strings (global)'] = len(merged)
    acc.sample({'injectivity': 'D(<=5,2): %d strings' % len(merged)})
    # stereoisomers: every label combination of the stereo family skeletons must get distinct strings iff RDKit distinguishes them
    from chython import smiles
    from rdkit import Chem, RDLogger
    RDLogger.DisableLog('rdApp.*')
    fam = {}
    for s in inputs.ring_stereo_family():
        m = smiles(s)
        key = Chem.MolToSmiles(Chem.MolFromSmiles(s), isomericSmiles=False)
        fam.setdefault(key, []).append((s, str(m), Chem.CanonSmiles(s)))
    for key, items in fam.items():
        for (s1, c1, r1), (s2, c2, r2) in itertools.combinations(items, 2):
            acc.states += 1
            acc.transitions += 1
            if r1 != r2 and c1 == c2:
                a_, b_ = Chem.MolFromSmiles(r1), Chem.MolFromSmiles(r2)
                if not (a_.HasSubstructMatch(b_, useChirality=True) and b_.HasSubstructMatch(a_, useChirality=True)):
                    acc.fail('two stereoisomers receive the same canonical string', mol=s1, other=s2, string=c1)
    return acc


def run_atoms(shard):
    """(a) every element x charge -4..+4 x radical x isotope as a one-atom molecule: attributes restored, distinct atoms never share a string;
    (b) chains and multi-component molecules of up to 13 atoms with one or two radical / charged / labelled atoms at every position (indices of the
    extension block reach two digits), canonical writer and every one-deviation traversal"""
    from chython.periodictable import Element
    k, nsh, tier = shard
    acc = Acc()
    table = {}
    els = [Element.from_atomic_number(z) for z in range(1, 119)]
    for zi, el in enumerate(els):
        if zi % nsh != k:
            continue
        sym = el.__name__
        for ch in range(-4, 5):
            for rad in (False, True):
                for isot in (None, 'ref'):
                    try:
                        iv = el().mdl_isotope + 1 if isot else None
                    except Exception:
                        iv = None
                        if isot:
                            continue
                    spec = {'atoms': [(sym, ch, rad, iv)], 'bonds': [], 'tag': '[%s%s%+d%s]' % (iv or '', sym, ch, '*' if rad else '')}
                    try:
                        m = M.to_chython(spec)
                    except Exception:
                        acc.ood['atom cannot be built'] += 1
                        continue
                    acc.states += 1
                    if m.check_valence():
                        acc.ood['valence-invalid atom'] += 1
                        continue
                    a = m.atom(1)
                    key = raw_atom(a)
                    for opt in ('', 'h', 'A'):
                        acc.transitions += 2
                        text = format(m, opt) if opt else str(m)
                        if opt == '':
                            table.setdefault(text, set()).add(key)

                        def bad(what, **d):
                            acc.fail('%s :: %s' % (what, opt), mol=spec['tag'], atoms_stage=True, spec=[[list(a) for a in spec['atoms']], spec['bonds']], **d)
                            acc.outcomes['FAIL ' + what] += 1
                        compare_written(acc, m, text, [1], opt, bad, None)
                    acc.outcomes['atom lossless'] += 1
    # (b) positions
    lengths = (11, 12, 13) if tier == 'quick' else (10, 11, 12, 13, 14)
    jobs = []
    for L in lengths:
        for shape in ('chain', 'two chains', 'ions'):
            for p in range(L):
                for q in ([None] + list(range(p + 1, L)) if tier != 'quick' else [None, (p + 3) % L]):
                    if q == p:
                        continue
                    jobs.append((L, shape, p, q))
    for j, (L, shape, p, q) in enumerate(jobs):
        if j % nsh != k:
            continue
        atoms = [['C', 0, False, None] for _ in range(L)]
        if shape == 'chain':
            bonds = [(i, i + 1, 1) for i in range(L - 1)]
            atoms[0][0] = 'O'
            atoms[L - 1][0] = 'N'
        elif shape == 'two chains':
            cut = L // 2
            bonds = [(i, i + 1, 1) for i in range(L - 1) if i != cut - 1]
            atoms[0][0] = 'O'
        else:
            bonds = [(i, i + 1, 1) for i in range(2, L - 1)]
            atoms[0] = ['Na', 1, False, None]
            atoms[1] = ['Cl', -1, False, None]
        marks = [x for x in (p, q) if x is not None]
        if any(atoms[x][0] in ('Na', 'Cl') for x in marks):
            continue
        for x in marks:
            atoms[x][2] = True
        spec = {'atoms': [tuple(a) for a in atoms], 'bonds': bonds, 'tag': '%s of %d atoms, radicals at %s' % (shape, L, marks)}
        m = M.to_chython(spec)
        if m.check_valence():
            acc.ood['valence-invalid'] += 1
            continue
        acc.states += 1

        def bad(what, **d):
            acc.fail('%s :: %s' % (what, d.get('options', '')), mol=spec['tag'], atoms_stage=True, spec=[[list(a) for a in spec['atoms']], spec['bonds']], **d)
            acc.outcomes['FAIL ' + what] += 1
        for opt in ('', 'm'):
            text, order = m.__format__(opt, _return_order=True)
            full = format(m, opt) if opt else str(m)
            compare_written(acc, m, full, list(order), opt, bad, None)
            seen = {full}
            for text, order, script in chooser.explore(m, opt + 'r', bound=1, limit=40):
                full = chooser.run_full(m, opt + 'r', script)
                if full in seen:
                    continue
                seen.add(full)
                acc.states += 1
                compare_written(acc, m, full, order, opt + 'r', lambda what, **d: bad(what, script=list(script), **d), None)
        acc.outcomes['positions lossless'] += 1
    return acc, table


def atoms_driver(pmap, tier, seed):
    acc = Acc()
    merged = {}
    for a, table in pmap(run_atoms, [(k, 32, tier) for k in range(32)]):
        acc.merge(a)
        for t, keys in table.items():
            merged.setdefault(t, set()).update(keys)
    for t, keys in merged.items():
        if len(keys) > 1:
            acc.fail('two different atoms receive the same canonical string', string=t, mol=t, atoms=sorted(map(repr, keys)))
    acc.info['distinct one-atom strings'] = len(merged)
    return acc


def plan(tier, seed):
    return [Stage('small scope: options x all traversals', run_small, [(k, 64, tier) for k in range(64)],
                  'D(<=5,%d) x option subsets of {a,A,m,h} x canonical + every traversal of the random writer' % (1 if tier == 'quick' else 2)),
            Stage('stereo / radical / multi-component families + corpus', run_text, [(k, 64, tier) for k in range(64)],
                  'text families (all traversals <=7 atoms, <=2 deviations <=9 atoms, <=1 above) + corpus stride %d' % (32 if tier == 'quick' else 4)),
            Stage('bracket atoms and extension-block positions', atoms_driver, None,
                  '118 elements x charge -4..+4 x radical x {no isotope, reference+1} as one-atom molecules (valence-valid ones): restored, pairwise distinct strings; chains / two chains / ion pair + chain of %s atoms with one or two radical atoms at every position x canonical + one-deviation traversals x {plain, m}' % ('11-13' if tier == 'quick' else '10-14')),
            Stage('injectivity of canonical strings', injective_driver, None, 'D(<=%d,2): canonical string -> brute-force canonical code is a function; stereo family pairs vs RDKit' % (5 if tier == 'quick' else 6))]


def replay(rec):
    from chython import smiles
    acc = Acc()
    tag = rec['mol']
    if 'canonical string' in rec['key'] and 'receive' in rec['key']:
        return [{'key': rec['key']}]
    if rec.get('atoms_stage'):
        spec = {'atoms': [tuple(a) for a in rec['spec'][0]], 'bonds': [tuple(b) for b in rec['spec'][1]]}
        m = M.to_chython(spec)
        opt = rec.get('options', '')
        if rec.get('script') is not None:
            _, order, _ = chooser.run(m, opt, rec['script'])
            text = chooser.run_full(m, opt, rec['script'])
        else:
            text, order = (format(m, opt) if opt else str(m)), list(m.__format__(opt, _return_order=True)[1])
        compare_written(acc, m, text, list(order), opt, lambda what, **d: acc.fail('%s :: %s' % (what, d.get('options', ''))), None)
    elif tag.startswith('n'):
        for spec in M.scope(5, 2):
            if spec['tag'] == tag:
                check_molecule(acc, M.to_chython(spec), tag, None, limit=150)
    else:
        m = smiles(tag)
        check_molecule(acc, m, tag, None if len(m) <= 7 else 2, limit=200, rd_text=tag if '|' not in tag else None)
    return [f for f in acc.fails if f['key'] == rec['key']]
