"""C09 -- the bit-mask (compiled) matcher and the reference matcher return the same mappings.

The compiled extension cannot be built here: chython/algorithms/_isomorphism.pyx is executed as a source-derived model
(vf/pyxmodel) fed by the REAL encoders _cython_compiled_structure/_cython_compiled_query of isomorphism.py."""
import itertools

from ..core import Acc, Stage
from ..scope import molecules as M, inputs

META = {
    'technique': 'field-exhaustive enumeration of the bit layout (every field completely, every pair of fields at boundary values) and of query x molecule pairs; model of _isomorphism.pyx vs pure-Python matcher on the real encoders',
    'rule': 'one state per (query, molecule); both matcher configurations are run and their mapping sets compared',
    'assumptions': ['_isomorphism.pyx runs as a source-derived Python model with C semantics (packed structs, pointers, 64-bit masks); no real traces of a compiled matcher exist in the sandbox',
                    'implicit hydrogens 5..6 are outside the documented 0-4 field and only reported informationally'],
}


def _enable():
    from ..pyxmodel import hook
    hook.enable_iso(True)


def both(q, m):
    a = {frozenset(x.items()) for x in q.get_mapping(m, automorphism_filter=False, _cython=True)}
    b = {frozenset(x.items()) for x in q.get_mapping(m, automorphism_filter=False, _cython=False)}
    return a, b


def qatom(z=None, symbols=None, kind=None, **kw):
    from chython.periodictable import QueryElement, AnyElement, AnyMetal, ListElement
    if kind == 'A':
        return AnyElement(**kw)
    if kind == 'M':
        return AnyMetal(**{k: v for k, v in kw.items() if k in ('neighbors', 'hybridization')})
    if symbols:
        return ListElement(list(symbols), **kw)
    return QueryElement.from_atomic_number(z)(**kw)


def q1(atom):
    from chython import QueryContainer
    q = QueryContainer('')
    q.add_atom(atom, 1)
    return q


def compare(acc, q, m, tag):
    acc.states += 1
    acc.transitions += 2
    try:
        a, b = both(q, m)
    except Exception as e:
        acc.fail('matcher raised %s :: %s' % (type(e).__name__, tag.split(' | ')[0]), case=tag)
        return
    acc.outcomes[(len(b) > 0, len(a) == len(b))] += 1
    if a != b:
        acc.fail('bit-mask and reference matcher differ :: %s' % tag.split(' | ')[0], case=tag, compiled=len(a), reference=len(b))


def star(centre, nbrs, **kw):
    from chython import MoleculeContainer
    from chython.periodictable import Element
    m = MoleculeContainer()
    m.add_atom(Element.from_symbol(centre)(**kw), 1, _skip_calculation=True)
    for i, s in enumerate(nbrs, 2):
        m.add_atom(s, i, _skip_calculation=True)
        m.add_bond(1, i, 1, _skip_calculation=True)
    m.calc_labels()
    for _, a in m.atoms():
        if a._implicit_hydrogens is None:
            a._implicit_hydrogens = 0
    return m


def ring_mol(sizes):
    """spiro union of rings of the given sizes sharing atom 1 (atom 1 has exactly these ring sizes)"""
    from chython import MoleculeContainer
    m = MoleculeContainer()
    m.add_atom('C', 1, _skip_calculation=True)
    n = 1
    for s in sizes:
        prev = 1
        for _ in range(s - 1):
            n += 1
            m.add_atom('C', n, _skip_calculation=True)
            m.add_bond(prev, n, 1, _skip_calculation=True)
            prev = n
        m.add_bond(prev, 1, 1, _skip_calculation=True)
    m.fix_structure()
    return m


def run_field(shard):
    from chython import MoleculeContainer
    from chython.periodictable import Element
    _enable()
    kind, lo, hi = shard
    acc = Acc()
    if kind == 'element':
        mols = [star(Element.from_atomic_number(z).__name__, []) for z in range(1, 119)]
        for zq in range(lo, hi):
            q = q1(qatom(zq))
            for zm, m in enumerate(mols, 1):
                compare(acc, q, m, 'element query=%s molecule=%s' % (Element.from_atomic_number(zq).__name__, Element.from_atomic_number(zm).__name__))
        # ring closures landing on every element (closure bond masks carry atom bits as well)
        from chython import smarts as _smarts
        for zq in range(lo, hi):
            sym = Element.from_atomic_number(zq).__name__
            for qs_ in ('[#%d]1CCCC1' % zq, 'C1CC[#%d]C1' % zq, '[A]1CCCC1', '[#%d]1CC1' % zq):
                q = _smarts(qs_)
                for tz in {zq, 6, 78 if zq != 78 else 57}:
                    t = MoleculeContainer()
                    for i in range(1, 6):
                        t.add_atom(Element.from_atomic_number(tz)() if i == 1 else 'C', i, _skip_calculation=True)
                    for i in range(1, 6):
                        t.add_bond(i, i % 5 + 1, 1, _skip_calculation=True)
                    t.calc_labels()
                    for _, a in t.atoms():
                        a._implicit_hydrogens = 0
                    compare(acc, q, t, 'ring closure query=%s | target ring element=%s' % (qs_, Element.from_atomic_number(tz).__name__))
        if lo == 1:
            for spec in (('C', 'N'), ('Fe', 'Pt'), ('Ba', 'La'), ('Lv', 'C'), ('Ts', 'Og'), ('Cl', 'Br', 'I'), ('Mc', 'Lv')):
                q = q1(qatom(symbols=spec))
                for zm, m in enumerate(mols, 1):
                    compare(acc, q, m, 'element query=[%s] molecule=%s' % (','.join(spec), Element.from_atomic_number(zm).__name__))
            for k in ('A', 'M'):
                q = q1(qatom(kind=k))
                for zm, m in enumerate(mols, 1):
                    compare(acc, q, m, 'element query=%s molecule=%s' % (k, Element.from_atomic_number(zm).__name__))
            acc.sample({'field': 'element', 'query': '1..118, lists, A, M', 'molecule': '1..118'})
    elif kind == 'isotope':
        for z in range(lo, hi):
            cls = Element.from_atomic_number(z)
            isos = [None] + sorted(cls().isotopes_masses)
            mols = [(i, star(cls.__name__, [], isotope=i)) for i in isos]
            for iq in isos:
                q = q1(qatom(z, isotope=iq))
                for im, m in mols:
                    compare(acc, q, m, 'isotope %s query=%s molecule=%s' % (cls.__name__, iq, im))
    elif kind == 'scalar':
        for cq in range(-4, 5):
            for rq in (False, True):
                q = q1(qatom(26, charge=cq, is_radical=rq))
                for cm in range(-4, 5):
                    for rm in (False, True):
                        compare(acc, q, star('Fe', [], charge=cm, is_radical=rm), 'charge/radical query=(%d,%s) molecule=(%d,%s)' % (cq, rq, cm, rm))
        # implicit hydrogens: singletons and pairs within 0..4 vs 0..4 / None (5, 6 informational)
        specs = [(h,) for h in range(5)] + list(itertools.combinations(range(5), 2)) + [None]
        for hq in specs:
            q = q1(qatom(6, implicit_hydrogens=hq))
            for hm in (0, 1, 2, 3, 4, None):
                m = star('C', [])
                m.atom(1)._implicit_hydrogens = hm
                compare(acc, q, m, 'hydrogens query=%s molecule=%s' % (hq, hm))
        # hybridization subsets x 1..4
        hyb = {1: 'CC', 2: 'C=C', 3: 'C#C', 4: 'c1ccccc1'}
        from chython import smiles
        hm_ = {k: smiles(v) for k, v in hyb.items()}
        for r in range(0, 5):
            for sub in itertools.combinations((1, 2, 3, 4), r):
                q = q1(qatom(6, hybridization=sub or None))
                for k, m in hm_.items():
                    compare(acc, q, m, 'hybridization query=%s molecule=%d' % (sub, k))
        # the same fields through the other kinds of query atom (each kind has its own encoder branch)
        for kname, mk_ in (('any-atom', lambda **kw: qatom(kind='A', **kw)), ('list', lambda **kw: qatom(symbols=('C', 'Fe'), **kw))):
            for cq in range(-4, 5):
                for rq in (False, True):
                    q = q1(mk_(charge=cq, is_radical=rq))
                    for cm in range(-4, 5):
                        for rm in (False, True):
                            compare(acc, q, star('Fe', [], charge=cm, is_radical=rm), 'charge/radical (%s) query=(%d,%s) molecule=(%d,%s)' % (kname, cq, rq, cm, rm))
            for hq in specs:
                q = q1(mk_(implicit_hydrogens=hq))
                for hm in (0, 1, 2, 3, 4, None):
                    m = star('C', [])
                    m.atom(1)._implicit_hydrogens = hm
                    compare(acc, q, m, 'hydrogens (%s) query=%s molecule=%s' % (kname, hq, hm))
        # isotope x radical x charge together (the query mask combines them in one word)
        from chython.periodictable import Element
        for z_ in (6, 17, 26, 92):
            cls_ = Element.from_atomic_number(z_)
            ref_ = cls_().mdl_isotope
            isos = [None] + [i_ for i_ in (ref_, ref_ + 1, ref_ - 1) if i_ in cls_().isotopes_masses][:2]
            grid = [(i_, r_, c_) for i_ in isos for r_ in (False, True) for c_ in (-1, 0, 1)]
            for qi_, qr_, qc_ in grid:
                q = q1(qatom(z_, isotope=qi_, is_radical=qr_, charge=qc_))
                for mi_, mr_, mc_ in grid:
                    compare(acc, q, star(cls_.__name__, [], isotope=mi_, charge=mc_, is_radical=mr_), 'isotope/radical/charge product Z=%d query=(%s,%s,%d) molecule=(%s,%s,%d)' % (z_, qi_, qr_, qc_, mi_, mr_, mc_))
        fe = {1: smiles('C[Fe]C'), 2: smiles('C=[Fe]'), 3: smiles('C#[Fe]')}
        for kname, mk_ in (('any-atom', lambda **kw: qatom(kind='A', **kw)), ('list', lambda **kw: qatom(symbols=('C', 'Fe'), **kw)), ('any-metal', lambda **kw: qatom(kind='M', **kw))):
            for r in range(0, 5):
                for sub in itertools.combinations((1, 2, 3, 4), r):
                    q = q1(mk_(hybridization=sub or None))
                    for k, m in list(hm_.items()) + [(10 + k_, m_) for k_, m_ in fe.items()]:
                        compare(acc, q, m, 'hybridization (%s) query=%s molecule=%d' % (kname, sub, k))
        acc.sample({'field': 'charge x radical, hydrogens, hybridization', 'full product': True})
    elif kind == 'elhyb':
        # hybridisation shares its word with the elements above Ba: every element as molecule atom x every hybridisation label x constrained queries of each kind
        subs = [None, (1,), (2,), (3,), (4,), (1, 3), (2, 4)]
        for z in range(lo, hi):
            sym = Element.from_atomic_number(z).__name__
            mols = {}
            for k in (1, 2, 3, 4):
                m = star(sym, [])
                m.atom(1)._hybridization = k
                mols[k] = m
            qs = [('element', lambda **kw: qatom(z, **kw)), ('any-atom', lambda **kw: qatom(kind='A', **kw)), ('list', lambda **kw: qatom(symbols=(sym, 'C' if sym != 'C' else 'N', 'U' if sym != 'U' else 'Pu'), **kw)),
                  ('any-metal', lambda **kw: qatom(kind='M', **kw))]
            for kname, mk_ in qs:
                for sub in subs:
                    q = q1(mk_(hybridization=sub))
                    for k, m in mols.items():
                        compare(acc, q, m, 'element x hybridization (%s) query=%s molecule=%s z%d' % (kname, sub, sym, k))
    elif kind == 'counts':
        # neighbours / heteroatoms: every singleton and pair within 0..14 vs 0..14
        specs = [(k,) for k in range(15)] + list(itertools.combinations(range(15), 2)) + [None]
        stars_n = [star('Fe', ['C'] * k) for k in range(15)]
        stars_h = [star('Fe', ['N'] * k + ['C'] * (14 - k)) for k in range(15)]
        for si, sp in enumerate(specs):
            if si % 8 != lo:
                continue
            q = q1(qatom(26, neighbors=sp))
            for k, m in enumerate(stars_n):
                compare(acc, q, m, 'neighbors query=%s molecule=%d' % (sp, k))
            q = q1(qatom(26, heteroatoms=sp))
            for k, m in enumerate(stars_h):
                compare(acc, q, m, 'heteroatoms query=%s molecule=%d' % (sp, k))
            # the other kinds of query atom carry the same field through their own encoder branch
            for kname, qa in (('any-metal', qatom(kind='M', neighbors=sp)), ('any-atom', qatom(kind='A', neighbors=sp)), ('list', qatom(symbols=('Fe', 'Cu'), neighbors=sp))):
                q = q1(qa)
                for k, m in enumerate(stars_n):
                    compare(acc, q, m, 'neighbors (%s) query=%s molecule=%d' % (kname, sp, k))
            for kname, qa in (('any-atom', qatom(kind='A', heteroatoms=sp)), ('list', qatom(symbols=('Fe', 'Cu'), heteroatoms=sp))):
                q = q1(qa)
                for k, m in enumerate(stars_h):
                    compare(acc, q, m, 'heteroatoms (%s) query=%s molecule=%d' % (kname, sp, k))
    elif kind == 'rings':
        sizes = list(range(3, 67)) + [70]
        mols = {(s,): ring_mol((s,)) for s in sizes}
        for pair in ((3, 4), (5, 6), (6, 6), (3, 65), (5, 66), (65, 66), (66, 70), (4, 70), (64, 65)):
            mols[pair] = ring_mol(pair)
        chain = star('C', ['C', 'C'])
        specs = [None, 0] + [(s,) for s in sizes[:14]] + [(s,) for s in sizes[-6:]] + [(3, 4), (5, 6), (6, 65), (65, 66), (66, 70), (3, 70), (64, 66)]
        for si, sp in enumerate(specs):
            if si % 8 != lo:
                continue
            q = q1(qatom(6, ring_sizes=sp))
            for key, m in mols.items():
                compare(acc, q, m, 'ring_sizes query=%s molecule=%s' % (sp, key))
            compare(acc, q, chain, 'ring_sizes query=%s molecule=chain' % (sp,))
    elif kind == 'pairs':
        # every pair of fields at {min, interior, max}; molecule side: full product of the boundary values
        fe = Element.from_symbol('Fe')
        isos = sorted(fe().isotopes_masses)
        vals = {'charge': (-4, 0, 4), 'isotope': (isos[0], None, isos[-1]), 'is_radical': (False, True), 'neighbors': (0, 7, 14), 'heteroatoms': (0, 7, 14),
                'implicit_hydrogens': (0, 2, 4)}
        mols = []
        for ch in vals['charge']:
            for iso in vals['isotope']:
                for rad in vals['is_radical']:
                    for nb in vals['neighbors']:
                        for het in vals['heteroatoms']:
                            if het > nb:
                                continue
                            for h in vals['implicit_hydrogens']:
                                m = star('Fe', ['N'] * het + ['C'] * (nb - het), charge=ch, isotope=iso, is_radical=rad)
                                m.atom(1)._implicit_hydrogens = h
                                mols.append(((ch, iso, rad, nb, het, h), m))
        fields = list(vals)
        qi = 0
        for f1, f2 in itertools.combinations(fields, 2):
            for v1 in vals[f1]:
                for v2 in vals[f2]:
                    qi += 1
                    if qi % 8 != lo:
                        continue
                    kw = {f1: v1, f2: v2}
                    iso = kw.pop('isotope', None)
                    q = q1(qatom(26, isotope=iso, **kw))
                    for key, m in mols:
                        compare(acc, q, m, 'field pair %s=%s,%s=%s | molecule=%s' % (f1, v1, f2, v2, key))
        acc.sample({'field pairs': fields, 'values': {k: list(map(str, v)) for k, v in vals.items()}})
    return acc


def run_search(shard):
    from chython import smarts, smiles
    from .c07 import SMARTS, tgt_specs, build_p, union_spec
    _enable()
    k, nsh, tier = shard
    acc = Acc()
    qs = [(smarts(s), s) for s in SMARTS + inputs.SMARTS_QUERIES]
    tars = tgt_specs(5, 1, 2 if tier == 'quick' else 1, 0)
    tars += [union_spec(tars[0], tars[4]), union_spec(tars[9], tars[9])]
    for ti, ts in enumerate(tars):
        if ti % nsh != k:
            continue
        t = build_p(ts)
        for q, s in qs:
            compare(acc, q, t, 'search smarts=%s | target=%s' % (s, ts['tag']))
            if (ti + len(s)) % 5 == 0:
                acc.transitions += 2
                sc = list(t)[:3]
                a = {frozenset(x.items()) for x in q.get_mapping(t, automorphism_filter=False, searching_scope=sc, _cython=True)}
                b = {frozenset(x.items()) for x in q.get_mapping(t, automorphism_filter=False, searching_scope=sc, _cython=False)}
                if a != b:
                    acc.fail('bit-mask and reference matcher differ under a searching scope :: %s' % s, case=ts['tag'])
        # the same target with its atoms inserted in descending / rotated number order (storage order differs from ascending numbers), with and without a scope
        n_ = len(ts['atoms'])
        rot = list(range(2, n_ + 1)) + [1]
        for vname, kw in (('atoms inserted in reverse', {'atom_order': list(range(n_))[::-1]}), ('rotated numbers, reverse insertion', {'numbers': rot, 'atom_order': list(range(n_))[::-1]})):
            if n_ < 2:
                continue
            tv = M.to_chython(ts, **kw)
            for qi_, (q, s) in enumerate(qs):
                if (qi_ + ti) % 3:
                    continue
                compare(acc, q, tv, 'search (%s) smarts=%s | target=%s' % (vname, s, ts['tag']))
                acc.transitions += 2
                for sc in (sorted(tv)[:max(1, n_ // 2)], sorted(tv)[n_ // 2:]):
                    a = {frozenset(x.items()) for x in q.get_mapping(tv, automorphism_filter=False, searching_scope=sc, _cython=True)}
                    b = {frozenset(x.items()) for x in q.get_mapping(tv, automorphism_filter=False, searching_scope=sc, _cython=False)}
                    if a != b:
                        acc.fail('bit-mask and reference matcher differ under a searching scope (%s) :: %s' % (vname, s), case=ts['tag'])
                        break
    rows = M.corpus(stride=32 if tier == 'quick' else 4)
    cage = ['C1C2CC3C1C3C2', 'C12C3C4C1C5C2C3C45', 'C1CC2CCC1C2', 'C1C2C3C1C23', 'C12C3C1C23', 'C1CCC2(CC1)CCCC2', '[Pt]1CCCC1', 'C1CC[Pt]C1', 'C1CC[La]C1', 'c1ccc2ccccc2c1',
            'C1CC1C1CC1', 'c1ccccc1-c1ccccc1']
    for i, s in enumerate(cage + rows):
        if i % nsh != k:
            continue
        try:
            m = smiles(s)
            if any(a.implicit_hydrogens is None for _, a in m.atoms()):
                m.kekule()
                m.thiele()
        except Exception:
            continue
        for q, qs_ in qs:
            compare(acc, q, m, 'search smarts=%s | target=%s' % (qs_, s))
    acc.sample({'smarts': (SMARTS + inputs.SMARTS_QUERIES)[:5], 'targets': 'D(<=5,1), cages/metallacycles, corpus stride'})
    return acc


DERIVED_SRC = ['Oc1ccccc1', 'c1ccc2ccccc2c1', 'CC(=O)CC(C)=O', 'Oc1ccccn1', 'c1c[nH]cn1', 'CC(=O)Nc1ccccc1', 'C1=CC=CC=C1O', 'OC=CC=O', 'NC(=O)c1cccnc1', 'CC=CC(O)=N', 'O=C1CCCCC1', 'c1ccccc1-c1ccccc1',
               'Cc1cc(=O)[nH]c(C)n1', 'CC(O)=CC#N', 'OC1=CC=NC=C1']
DERIVED_Q = ['C=C', 'C-C', 'C:C', '[C;z2]', '[C;z1]', '[C;z4]', '[O;h1]', '[O;h0]', '[N;h1]', '[N;h0]', 'C=O', 'C-O', 'C=N', 'C-N', '[C;h1]', '[C;h2]', '[A;a]', '[C;D2]', 'C=CC=C', 'C-;@C', 'C-;!@[N,O]', 'C=;@C']


def run_derived(shard):
    """objects the library derives from a molecule whose packed structure is already in its cache: the packed structure of the derived object must
    describe the derived object (compiled path == reference path on it), for copies, enumerated Kekule forms, enumerated tautomers, substructures, unions"""
    from chython import smiles, smarts
    _enable()
    k, nsh, tier = shard
    acc = Acc()
    qs = [(smarts(x), x) for x in DERIVED_Q]
    for i, s in enumerate(DERIVED_SRC):
        if i % nsh != k:
            continue
        for warm in (True, False):
            m = smiles(s)
            if any(a.implicit_hydrogens is None for _, a in m.atoms()):
                m.kekule()
                m.thiele()
            if warm:
                for q, _ in qs[:3]:
                    list(q.get_mapping(m, automorphism_filter=False, _cython=True))   # fills the packed-structure cache of the source
            derived = [('copy', m.copy()), ('copy keeping ring data', m.copy(keep_sssr=True, keep_components=True))]
            try:
                for j, f in enumerate(m.copy().enumerate_kekule() if not warm else m.enumerate_kekule()):
                    derived.append(('Kekule form %d' % j, f))
                    if j >= 5:
                        break
            except Exception:
                pass
            try:
                for j, f in enumerate(m.enumerate_tautomers(full=True) if warm else m.copy().enumerate_tautomers(full=True)):
                    derived.append(('tautomer %d' % j, f))
                    if j >= 7:
                        break
            except Exception as e:
                acc.ood['enumerate_tautomers raised %s' % type(e).__name__] += 1
            atoms = list(m)
            derived.append(('substructure', m.substructure(atoms[:max(2, len(atoms) // 2)])))
            derived.append(('union', m.union(_shifted(smiles('CC=O'), max(atoms)))))
            kk = m.copy()
            kk.kekule()
            derived.append(('kekule in place after search', kk))
            if warm:
                m2 = m
                try:
                    m2.kekule()
                    derived.append(('source kekulised in place', m2))
                except Exception:
                    pass
            for what, d in derived:
                for q, qs_ in qs:
                    compare(acc, q, d, 'derived object (%s, source %s) smarts=%s | %s' % (what.split(' ')[0] if what[-1].isdigit() else what, 'searched before' if warm else 'fresh', qs_, s))
    return acc


def _shifted(m, by):
    m = m.copy()
    m.remap({n: n + by for n in m})
    return m


def plan(tier, seed):
    st = [Stage('element x element', run_field, [('element', a, min(a + 8, 119)) for a in range(1, 119, 8)], 'query element 1..118 (+lists, A, M) x molecule element 1..118'),
          Stage('isotopes', run_field, [('isotope', a, min(a + 8, 119)) for a in range(1, 119, 8)], 'every element: (unspecified + every tabulated isotope)^2'),
          Stage('charge, radical, hydrogens, hybridization', run_field, [('scalar', 0, 0)], 'full products'),
          Stage('element x hybridization', run_field, [('elhyb', a, min(a + 8, 119)) for a in range(1, 119, 8)], 'every element 1..118 as molecule atom x hybridisation label 1..4 x {element, any-atom, list, any-metal} query x 7 hybridisation constraints'),
          Stage('neighbour / heteroatom counts', run_field, [('counts', k, 0) for k in range(8)], 'singletons and pairs within 0..14 x 0..14'),
          Stage('ring sizes', run_field, [('rings', k, 0) for k in range(8)], 'ring-size specs x rings 3..66, 70 and spiro pairs'),
          Stage('field pairs at boundaries', run_field, [('pairs', k, 0) for k in range(8)], 'every pair of 6 fields at {min, interior, max} x full boundary product on the molecule side'),
          Stage('derived objects', run_derived, [(k, 15, tier) for k in range(15)], '15 source molecules x {searched before, fresh} x copies / enumerated Kekule forms / enumerated tautomers / substructure / union / in-place kekule x 21 queries reading bond orders, hydrogens, hybridisation'),
          Stage('search level', run_search, [(k, 32, tier) for k in range(32)], 'SMARTS of C07/C08/C19 x D(<=5,1) + cages + corpus stride %d, with and without scope' % (32 if tier == 'quick' else 4))]
    return st


def replay(rec):
    case = rec.get('case', '')
    key = rec['key']
    head = key.split(' :: ')[-1]
    kind = head.split(' ')[0]
    accs = []
    if head.startswith('element x hybridization'):
        from chython.periodictable import Element
        import re
        z = Element.from_symbol(re.search(r'molecule=(\S+) z', head).group(1))().atomic_number
        accs = [run_field(('elhyb', z, z + 1))]
    elif kind == 'element':
        from chython.periodictable import Element
        import re
        mt = re.match(r'element query=(\S+) ', head)
        sym = mt.group(1)
        if sym.startswith('[') or sym in ('A', 'M'):
            accs = [run_field(('element', 1, 2))]
        else:
            z = Element.from_symbol(sym)().atomic_number
            accs = [run_field(('element', z, z + 1))]
    elif kind == 'ring' and head.startswith('ring closure'):
        accs = [run_field(('element', a, min(a + 8, 119))) for a in range(1, 119, 8)]
    elif kind == 'isotope':
        from chython.periodictable import Element
        z = Element.from_symbol(head.split(' ')[1])().atomic_number
        accs = [run_field(('isotope', z, z + 1))]
    elif kind in ('charge/radical', 'hydrogens', 'hybridization'):
        accs = [run_field(('scalar', 0, 0))]
    elif kind in ('neighbors', 'heteroatoms'):
        accs = [run_field(('counts', k, 0)) for k in range(8)]
    elif kind == 'ring_sizes':
        accs = [run_field(('rings', k, 0)) for k in range(8)]
    elif kind == 'field':
        accs = [run_field(('pairs', k, 0)) for k in range(8)]
    elif head.startswith('derived object'):
        accs = [run_derived((k, 15, 'quick')) for k in range(15)]
    else:
        accs = [run_search((k, 32, 'quick')) for k in range(32)]
    return [f for a in accs for f in a.fails if f['key'] == key]
