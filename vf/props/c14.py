"""C14 -- normalisation conserves composition, is idempotent, numbering independent; documented spellings are produced."""
import itertools

from ..core import Acc, Stage
from ..scope import molecules as M, graphs, inputs, rules

META = {
    'technique': 'bounded exhaustive enumeration of valence-valid molecules (small scope, every rule pattern instantiated, documented pairs, corpus) x operations x renumberings on the real normalisers; relational oracle (conservation, idempotence, inverse pair, equivariance, documented outputs)',
    'rule': 'one state per (molecule, operation[, numbering]); transitions = operation calls',
    'assumptions': ['idempotence and equivariance are judged on the structure (raw atoms, charges, hydrogens, bond orders), not on return values',
                    'numbering independence is claimed with fix_tautomers=False everywhere and with it enabled on the corpus only (property text)'],
}


def snap(m):
    return (tuple(sorted((n, a.atomic_symbol, a.isotope or 0, a.charge, a.is_radical, a.implicit_hydrogens if a.implicit_hydrogens is not None else -1) for n, a in m.atoms())),
            tuple(sorted((min(n, k), max(n, k), b.order) for n, k, b in m.bonds())))


def heavy(m):
    return tuple(sorted((a.atomic_symbol, a.isotope or 0) for _, a in m.atoms() if a.atomic_number != 1))


def total_h(m):
    return sum((a.implicit_hydrogens or 0) for _, a in m.atoms()) + sum(1 for _, a in m.atoms() if a.atomic_number == 1)


def charge(m):
    return sum(a.charge for _, a in m.atoms())


OPS = {
    'canonicalize': lambda m: m.canonicalize(fix_tautomers=False),
    'canonicalize_kekule': lambda m: m.canonicalize(fix_tautomers=False, keep_kekule=True),
    'canonicalize_taut': lambda m: m.canonicalize(),
    'standardize': lambda m: m.standardize(fix_tautomers=False),
    'standardize_taut': lambda m: m.standardize(),
    'fix_resonance': lambda m: m.fix_resonance(),
    'standardize_charges': lambda m: m.standardize_charges(),
    'neutralize': lambda m: m.neutralize(),
    'neutralize_free': lambda m: m.neutralize(keep_charge=False),
    'explicify': lambda m: m.explicify_hydrogens(),
    'implicify': lambda m: m.implicify_hydrogens(),
}
REARRANGE = {'canonicalize', 'canonicalize_kekule', 'canonicalize_taut', 'standardize', 'standardize_taut', 'fix_resonance', 'standardize_charges', 'explicify', 'implicify'}
EQUIVARIANT = ['canonicalize', 'canonicalize_kekule', 'standardize', 'fix_resonance', 'standardize_charges', 'neutralize', 'explicify', 'implicify']


def coherent(m):
    """derived values of the processed object equal those of a fresh copy with recomputed labels (no stale cache/label)"""
    c = m.copy()
    c.flush_cache()
    c.calc_labels()
    for name, f in (('str', str), ('sssr', lambda x: sorted(map(sorted, x.sssr))), ('rings', lambda x: x.atoms_rings_sizes), ('components', lambda x: sorted(map(sorted, x.connected_components))),
                    ('order', lambda x: x.atoms_order), ('brutto', lambda x: x.brutto),
                    ('linear fingerprint', lambda x: sorted(x.linear_hash_set())), ('morgan fingerprint', lambda x: sorted(x.morgan_hash_set())),
                    ('labels', lambda x: [(n, a.neighbors, a.hybridization, a.heteroatoms, bool(a.in_ring), sorted(a.ring_sizes)) for n, a in x.atoms()]),
                    ('bond marks', lambda x: [(n, k, bool(b.in_ring)) for n, k, b in x.bonds()])):
        def val(x):
            try:
                return f(x)
            except Exception as e:   # e.g. brutto of a molecule with an atom without valence state: same outcome on both sides is coherent
                return ('EXC', type(e).__name__)
        if val(m) != val(c):
            return name
    return None


def _symmetric(m, skeleton=False):
    """the molecule has constitutionally equivalent atoms; skeleton=True: equivalent once charges, radicals and bond orders are ignored
    (atoms that exchange their roles between two resonance / localised forms of one molecule)"""
    from ..oracle import symmetry
    try:
        pl = symmetry.plain_from_chython(m)
        atoms, adj = pl[0], pl[1]
        if skeleton:
            atoms = {n: (a[0], a[1]) for n, a in atoms.items()}
            adj = {n: {k: 1 for k in ks} for n, ks in adj.items()}
        orb = symmetry.orbits(atoms, adj)
    except Exception:
        return False
    return len(set(orb.values())) < len(orb)


def _warm(m):
    for f in (str, lambda x: x.sssr, lambda x: x.atoms_rings_sizes, lambda x: x.connected_components, lambda x: x.atoms_order, lambda x: x.brutto, lambda x: x.linear_hash_set(),
              lambda x: x.morgan_hash_set(), lambda x: x.aromatic_rings, lambda x: x.not_special_connectivity):
        try:
            f(m)
        except Exception:
            pass


def check_ops(acc, m0, tag, bad, ops, perms=(), taut_perms=False):
    valid = not m0.check_valence()
    if not valid:
        acc.ood['input not valence-valid'] += 1
        return
    s0, hv0, h0, c0 = snap(m0), heavy(m0), total_h(m0), charge(m0)
    results = {}
    results_str = {}
    for name in ops:
        f = OPS[name]
        acc.states += 1
        acc.transitions += 2
        m = m0.copy()
        _warm(m)   # every memo is populated before the operation, so anything the operation forgets to drop is seen by coherent() afterwards
        try:
            f(m)
        except Exception as e:
            bad('%s raised %s' % (name, type(e).__name__), op=name)
            continue
        if heavy(m) != hv0:
            bad('%s changes the heavy-atom multiset' % name, op=name, got=str(m))
            continue
        dc, dh = charge(m) - c0, total_h(m) - h0
        if name in REARRANGE:
            if dc or dh:
                rl = ''
                if 'standardize' in name or 'canonicalize' in name:
                    try:
                        lg = m0.copy().standardize(logging=True, fix_tautomers='taut' in name)
                        rl = ' [rules: %s]' % ' | '.join(sorted({x[2] for x in lg if x[1] >= 0}))
                    except Exception:
                        pass
                bad('%s changes net charge or hydrogen count (%+d, %+d)%s' % (name, dc, dh, rl), op=name, got=str(m))
                continue
        elif dc != dh:
            bad('%s changes charge and hydrogens by different amounts (%+d, %+d)' % (name, dc, dh), op=name, got=str(m))
            continue
        if m.check_valence():
            bad('%s produces a valence error' % name, op=name, got=format(m, 'h'))
            continue
        r = coherent(m)
        if r:
            bad('derived value %s stale after %s' % (r, name), op=name)
            continue
        s1 = snap(m)
        m2 = m.copy()
        try:
            f(m2)
            if snap(m2) != s1:
                if _symmetric(m, skeleton=True) and str(m2) == str(m):
                    # one molecule; the second pass only picked another of several equivalent localised forms (e.g. which NH2 of a guanidinium carries the double bond)
                    acc.ood['symmetric molecule: second pass gives the same molecule in an equivalent localised form'] += 1
                else:
                    bad('%s is not idempotent' % name, op=name, first=str(m), second=str(m2))
        except Exception as e:
            bad('second %s raised %s' % (name, type(e).__name__), op=name)
        results[name] = s1
        try:
            results_str[name] = str(m)
        except Exception:
            results_str[name] = None
        acc.outcomes[(name, s1 != s0)] += 1
    # inverse pair
    acc.transitions += 2
    try:
        e = m0.copy()
        e.implicify_hydrogens()
        base = snap(e)
        e.explicify_hydrogens()
        if any((a.implicit_hydrogens or 0) for _, a in e.atoms()):
            bad('explicify leaves implicit hydrogens', op='explicify')
        e.implicify_hydrogens()
        if snap(e) != base:
            bad('implicify(explicify(m)) differs from m', op='explicify/implicify', got=str(e))
        x = m0.copy()
        x.explicify_hydrogens()
        full = snap(x)
        x.implicify_hydrogens()
        x.explicify_hydrogens()
        if (tuple(sorted(t[1:] for t in snap(x)[0])), len(snap(x)[1])) != (tuple(sorted(t[1:] for t in full[0])), len(full[1])):
            bad('explicify(implicify(m)) differs from m on a fully explicit molecule', op='implicify/explicify')
    except Exception as e:
        bad('hydrogen inverse pair raised %s' % type(e).__name__, op='explicify/implicify')
    # equivariance under renumbering (the last numbering always has gaps: n -> 2n+5)
    nums = list(m0)
    perms = list(perms) + [[2 * n + 5 for n in nums]]
    eq_ops = [o for o in EQUIVARIANT if o in results] + (['canonicalize_taut'] if taut_perms and 'canonicalize_taut' in results else [])
    for pi, p in enumerate(perms):
        mp = dict(zip(nums, p))
        for name, storage in [(n_, 'kept') for n_ in eq_ops] + ([(n_, 'reversed') for n_ in eq_ops] if pi < 2 else []):
            acc.states += 1
            acc.transitions += 1
            m = m0.copy()
            m.remap(mp)
            if storage == 'reversed':
                # remap() keeps the storage order of atoms and neighbours; a molecule that was BUILT under the other numbering has another one
                try:
                    m = _rebuilt_reversed(m)
                except Exception as e:
                    bad('rebuilding the molecule raised %s' % type(e).__name__, op=name)
                    continue
                if m is None:
                    continue
            try:
                OPS[name](m)
            except Exception as e:
                bad('%s raised %s after renumbering' % (name, type(e).__name__), op=name, numbering=list(p))
                continue
            ref = results[name]
            exp = (tuple(sorted((mp.get(t[0], t[0]),) + t[1:] for t in ref[0])), tuple(sorted((min(mp.get(a, a), mp.get(b, b)), max(mp.get(a, a), mp.get(b, b)), o) for a, b, o in ref[1])))
            got = snap(m)
            if name == 'explicify':   # new hydrogens get fresh numbers: compare modulo hydrogen numbering
                exp = (tuple(sorted(t[1:] for t in exp[0])), len(exp[1]))
                got = (tuple(sorted(t[1:] for t in got[0])), len(got[1]))
            if got != exp:
                # a deterministic choice of ONE localised form of a symmetric input cannot commute with every renumbering (an automorphism of the input would have
                # to fix the output): for inputs with constitutionally equivalent atoms the outputs must be the same molecule, for all others the same labelled graph
                if _symmetric(m0, skeleton=True) and results_str.get(name) is not None and str(m) == results_str[name]:
                    acc.ood['symmetric input: outputs are one molecule, placed differently by an automorphism of the input'] += 1
                    continue
                bad('%s result depends on atom numbering%s' % (name, ' / storage order' if storage == 'reversed' else ''), op=name, numbering=list(p), got=str(m))
                break


_S2Z = {}


def _rebuilt_reversed(m):
    """the same molecule (numbers, attributes, labels) built through the public API with atoms and bonds inserted in the opposite order;
    None when the copy is not faithful (hydrogens of aromatic atoms are not derivable)"""
    from chython import MoleculeContainer
    from chython.periodictable import Element
    new = MoleculeContainer()
    for n in list(m)[::-1]:
        a = m.atom(n)
        new.add_atom(Element.from_symbol(a.atomic_symbol)(a.isotope, charge=a.charge, is_radical=a.is_radical), n)
    for x, y, bd in list(m.bonds())[::-1]:
        new.add_bond(x, y, bd.order)
    st = False
    for n, a in m.atoms():
        if a.stereo is not None:
            new._atoms[n]._stereo = a.stereo
            st = True
    for x, y, bd in m.bonds():
        if bd.stereo is not None:
            new._bonds[x][y]._stereo = bd.stereo
            st = True
    if st:
        new.flush_cache()
        new.fix_stereo()
        new.flush_cache()
    if [(n, a.implicit_hydrogens) for n, a in sorted(new.atoms())] != [(n, a.implicit_hydrogens) for n, a in sorted(m.atoms())]:
        return None
    return new


def _rederive_h(m, n):
    from chython.periodictable import Element
    from ..oracle import valence
    if not _S2Z:
        _S2Z.update({c.__name__: c.atomic_number.fget(None) for c in Element.__subclasses__()})
    a = m.atom(n)
    nb = [(b.order, m.atom(k).atomic_number) for k, b in m._bonds[n].items() if b.order != 8]
    return valence.rederive(a, a.charge, a.is_radical, nb, _S2Z)


def mkbad(acc, tag):
    def bad(what, **d):
        acc.fail('%s :: %s' % (what, tag), mol=tag, **d)
        acc.outcomes['FAIL ' + what.split(' (')[0]] += 1
    return bad


def run_small(shard):
    k, nsh, tier = shard
    acc = Acc()
    nmax, kk = (4, 2) if tier == 'quick' else (5, 2)
    els = ['N', 'O', 'S', 'P', 'B', 'Cl']
    for i, spec in enumerate(M.scope(nmax, kk, elements=els, shard=k, nshards=nsh)):
        m = M.to_chython(spec)
        nums = list(m)
        perms = list(itertools.permutations(nums))[1:] if len(nums) <= 4 else [list(p.values()) for p in graphs.gen_perms(nums)][1:]
        if tier == 'quick':
            perms = perms[:: max(1, len(perms) // 6)]
        check_ops(acc, m, spec['tag'], mkbad(acc, spec['tag']), list(OPS), perms)
        if i < 2 and k == 0:
            acc.sample({'mol': spec['tag'], 'operations': list(OPS)})
    return acc


def run_rules(shard):
    from chython import smiles
    k, nsh, tier = shard
    acc = Acc()
    tb = rules.tables()
    for ti, (name, idx, q) in enumerate(tb):
        if ti % nsh != k:
            continue
        ms = list(rules.instantiate(q, variants=3 if tier == 'quick' else 8))
        if not ms:
            acc.info['rule patterns never instantiated'] += 1
            continue
        for m in ms:
            tag = '%s[%d] %s as %s' % (name, idx, q, m)
            bad = mkbad(acc, tag)
            # a rule instance may be a deliberately non-standard (even valence-invalid) spelling: after standardize it must be valid,
            # composition conserved, stable, and numbering independent
            acc.states += 1
            acc.transitions += 3
            try:
                c = m.copy()
                c.standardize(fix_tautomers=False)
                if heavy(c) != heavy(m):
                    bad('standardize changes the heavy-atom multiset')
                    continue
                s1 = snap(c)
                c2 = c.copy()
                c2.standardize(fix_tautomers=False)
                if snap(c2) != s1:
                    bad('standardize is not idempotent', first=str(c), second=str(c2))
                r = coherent(c)
                if r:
                    bad('derived value %s stale after standardize' % r)
                nums = list(m)
                for p in [nums[::-1], nums[1:] + nums[:1], nums[2:] + nums[:2]]:
                    mp = dict(zip(nums, p))
                    x = m.copy()
                    x.remap(mp)
                    x.standardize(fix_tautomers=False)
                    exp = (tuple(sorted((mp[t[0]],) + t[1:] for t in s1[0])), tuple(sorted((min(mp[a], mp[b]), max(mp[a], mp[b]), o) for a, b, o in s1[1])))
                    if snap(x) != exp:
                        bad('standardize result depends on atom numbering', numbering=p, got=str(x), expected=str(c))
                        break
                # the standardised product is valence-valid input for every other operation
                if not c.check_valence() and not any(a.atomic_number == 1 and len(c._bonds[n]) > 1 for n, a in c.atoms()):
                    check_ops(acc, c, tag + ' (standardised)', bad, ['canonicalize', 'standardize', 'fix_resonance', 'standardize_charges', 'neutralize'], [list(c)[::-1]])
            except Exception as e:
                bad('standardize raised %s' % type(e).__name__)
        acc.outcomes[name] += 1
    return acc


def run_documented(shard):
    from chython import smiles
    acc = Acc()
    for raw, result in inputs.test_groups_pairs():
        acc.states += 1
        acc.transitions += 2
        tag = '%s -> %s' % (raw, result)
        bad = mkbad(acc, tag)
        try:
            m = smiles(raw)
            m.standardize()
            exp = smiles(result)
            if not (m == exp):
                bad('documented spelling is not converted to its documented canonical spelling', got=str(m), expected=str(exp))
                continue
            m2 = m.copy()
            m2.standardize()
            if snap(m2) != snap(m):
                bad('standardize is not idempotent on a documented pair')
            e = smiles(result)
            e.standardize()
            if not (e == exp):
                bad('the documented canonical spelling is not a fixed point', got=str(e))
            acc.outcomes['documented'] += 1
        except Exception as ex:
            bad('documented pair raised %s' % type(ex).__name__)
    acc.sample({'documented pairs': inputs.test_groups_pairs()[:3]})
    return acc


def run_corpus(shard):
    from chython import smiles
    k, nsh, tier = shard
    acc = Acc()
    rows = [('corpus', s) for s in M.corpus(stride=16 if tier == 'quick' else 2)] + [('metal', s) for s in inputs.organometallics()[::3]]
    rows += [('special', s) for s in ('CC(=O)[O-].[Na+]', 'C[NH3+].[Cl-]', 'OC(=O)CC[NH3+]', '[O-]C(=O)CC[NH3+]', 'CC(C)(N(=O)=O)N(=O)=O', 'O=N(=O)C(C)(C)N(=O)=O', 'C[N+](C)(C)C.[OH-]',
                                     'c1ccccc1O', 'Oc1ccccn1', 'O=C1C=CNC=C1', 'CC(O)=CC', 'CC(=O)CC(=O)C', '[O-]c1c[s+]ccc1', 'CN(C)C=C[S+]=CC', '[Fe](C#O)(C#O)(C#O)(C#O)C#O', 'CS(C)=O', 'C[S+](C)[O-]',
                                     'CP(C)(C)=O', 'N#[N+][O-]', 'CN=[N+]=[N-]', 'C[N+]#N', 'Cn1cc[n+](C)c1', 'OC1=NC(O)=CC=N1', 'O=c1cc[nH]c(=O)[nH]1', '[CH3]', 'C[O]', 'CC(=O)O[Na]', 'Cl[Mg]C', 'C[Li]',
                                     # two competing sites for one rule (priority between sibling rules must not depend on storage order)
                                     'CON(C)[CH+]N(C)C', 'CN(C)[CH+]N(C)OC', 'CN(C)[CH+]N(C)N(C)C', 'CN(C)[C+](C)N(C)O', 'C[N+](C)=CN(C)OC', 'CN(C)C=[N+](C)OC', 'C[S+](C)[CH-]C(=O)C[CH-][S+](C)C',
                                     '[O-][N+](=O)c1ccc(cc1)N(=O)=O', 'CN(=O)=O.C[N+]([O-])=O', 'C[N+]#[C-].[C-]#[N+]C', 'CS(=O)C.C[S+](C)[O-]',
                                     # cyclopentadienide-type anions: plain, substituted, benzo-fused (the canonical position of the charge must be a fixed point)
                                     '[CH-]1C=CC=C1', 'C[C-]1C=CC=C1', '[CH-]1C=Cc2ccccc12', 'C1=CC2=CC=CC=C2[CH-]1', '[CH-]1c2ccccc2-c2ccccc12', '[Na+].[CH-]1C=Cc2ccccc12', '[Fe+2].[CH-]1C=Cc2ccccc12.[CH-]1C=Cc2ccccc12',
                                     'C[C-]1C=Cc2ccccc12',
                                     # atoms carrying explicit AND implicit hydrogens; rules that turn a RING bond into a coordinate bond
                                     '[H]NC', '[H]C([H])C', '[H][NH2+]C', '[H]OC([H])C', '[2H]NC', 'CN12CC(=O)OB1(c1ccccc1)OC(=O)C2', 'C1=N2CCCB2CC1', 'CN1CCO[B-]1(C)C', 'C1CC[N+]2(C1)CCC[B-]2(F)F',
                                     # unbalanced acid/base counts (more cationic acids than anionic bases and the converse)
                                     '[NH3+]CCCC[C@H]([NH3+])C([O-])=O', 'NC(=[NH2+])NCCC[C@H]([NH3+])C([O-])=O', '[NH3+]CC[NH3+].CC(=O)[O-]', '[O-]C(=O)CC([O-])=O.C[NH3+]', '[NH3+]CC([O-])=O.[NH3+]CC([O-])=O.[Cl-]',
                                     'C[NH2+]CC[NH+](C)CC([O-])=O', '[O-]C(=O)C[NH+](CC([O-])=O)CC([O-])=O', 'OC(=O)CC[NH3+]',
                                     # thio-acid anions of phosphorus with an ammonium partner (added after seed C14-h1)
                                     'CCOP(=S)([O-])OCC.C[NH3+]', 'CCOP(=S)([S-])OCC.C[NH3+]', 'CP(C)(=S)[O-].[NH4+]', 'CP(C)(=[Se])[S-].C[NH3+]')]
    rows += [('taut-stereo', s) for s in inputs.tautomer_stereo_family()]
    # azoles with an NH donor and two or more acceptor nitrogens in one aromatic system (every spelling = another numbering)
    rows += [('azole', s) for s in ('n1[nH]nc(C)n1', 'Cc1nn[nH]n1', 'Cc1nnn[nH]1', 'c1nc[nH]n1', 'Cc1ncn[nH]1', 'Cc1nc[nH]n1', 'c1ncc2[nH]cnc2n1', 'c1nc2nc[nH]c2cn1', 'Cc1cc[nH]n1', 'c1ccc2[nH]nnc2c1',
                                    'c1ccc2n[nH]nc2c1', 'Cc1n[nH]c(C)n1', 'OCc1nn[nH]n1', 'c1ccc(cc1)-c1nn[nH]n1', 'Cc1cnc[nH]1', 'Nc1ncnc2[nH]cnc12', 'O=c1[nH]cnc2[nH]cnc12',
                                    # NH donor next to N-substituted ring nitrogens in one aromatic system (added after seed C14-h2)
                                    'Cn1ccc2c1[nH]c1c2ccn1C', 'Cn1ccc2[nH]ccc12')]
    for i, (fam, s) in enumerate(rows):
        if i % nsh != k:
            continue
        try:
            m = smiles(s)
            m.kekule()
        except Exception:
            acc.ood['not readable / kekulisable'] += 1
            continue
        nums = list(m)
        perms = [nums[::-1], nums[1:] + nums[:1], nums[len(nums) // 2:] + nums[:len(nums) // 2]]
        check_ops(acc, m, s, mkbad(acc, s), list(OPS), perms, taut_perms=(fam == 'corpus'))
        # tautomers: composition conserved, duplicate free
        acc.transitions += 1
        if m.check_valence():
            continue
        try:
            seen = set()
            b0, c0 = m.brutto, charge(m)
            for j, t in enumerate(m.enumerate_tautomers(limit=50)):
                if t.brutto != b0 or charge(t) != c0 or heavy(t) != heavy(m):
                    mkbad(acc, s)('a tautomer does not conserve composition', got=str(t))
                    break
                st = str(t)
                if st in seen:
                    mkbad(acc, s)('enumerate_tautomers yields a duplicate', got=st)
                    break
                seen.add(st)
                if t.check_valence():
                    mkbad(acc, s)('a tautomer has a valence error', got=st)
                    break
                hs = [a_.implicit_hydrogens for _, a_ in t.atoms()]
                if any(h is None or h < 0 for h in hs):
                    mkbad(acc, s)('a tautomer carries an impossible hydrogen count on an atom', got=st, hydrogens=hs)
                    break
                tk = t.copy()
                try:
                    tk.kekule()
                    stale = [n_ for n_, a_ in tk.atoms() if a_.implicit_hydrogens != _rederive_h(tk, n_)]
                except Exception:
                    stale = []
                if stale:
                    mkbad(acc, s)('hydrogen count of a tautomer atom differs from the count its bonds imply', got=st, atoms=stale[:4])
                    break
                if j > 60:
                    break
            # renumbering the input renumbers the output: the SET of tautomers is the same for every numbering. Decided on the small families, where the
            # enumeration completes far below the attempt limit, with the order-dependent pruning heuristic off and on
            if fam in ('azole', 'taut-stereo') and len(m) <= 14:
                for kw_name, kw in (('increase_aromaticity=False', {'increase_aromaticity': False}), ('default options', {})):
                    base_ = {str(t) for t in m.enumerate_tautomers(limit=5000, **kw)}
                    for p_ in perms:
                        acc.transitions += 1
                        c_ = m.copy()
                        c_.remap(dict(zip(nums, p_)))
                        got = {str(t) for t in c_.enumerate_tautomers(limit=5000, **kw)}
                        if got != base_:
                            mkbad(acc, s)('set of enumerated tautomers depends on atom numbering (%s)' % kw_name, perm=p_, missing=sorted(base_ - got)[:3], extra=sorted(got - base_)[:3])
                            break
        except Exception as e:
            mkbad(acc, s)('enumerate_tautomers raised %s' % type(e).__name__)
        if i < 2:
            acc.sample({'smiles': s})
    return acc


def run_azolium(shard):
    """charged azoles (the Morgan-rank based charge rules) x substituent scan with a remote stereocentre: idempotence and
    one canonical form for the two charge spellings"""
    from chython import smiles
    k, nsh, tier = shard
    acc = Acc()
    subs = ['C', 'CC', 'O', 'N', 'F', 'Cl', 'S', 'c1ccccc1', 'C(N)=O', 'OC', 'C#N', 'CO']
    rings = [('c1c[nH]c[nH+]1', 'c1c[nH+]c[nH]1'), ('c1cc[nH+][nH]1', 'c1cc[nH][nH+]1'), ('c1cn(C)c[nH+]1', 'c1c[nH]c[n+](C)1'), ('c1cc[nH+]n1C', 'c1cc[nH+]n1C')]
    i = 0
    for a in subs:
        for b in subs:
            if a == b:
                continue
            for link in ('', 'C'):
                for r1, r2 in rings:
                    i += 1
                    if i % nsh != k or (tier == 'quick' and i % 2):
                        continue
                    forms = []
                    for r in (r1, r2):
                        s_ = '%s[C@H](%s)%s%s' % (a, b, link, r)
                        tag = s_
                        bad = mkbad(acc, tag)
                        acc.states += 1
                        acc.transitions += 3
                        try:
                            m = smiles(s_)
                            m.canonicalize()
                            first = snap(m)
                            m.canonicalize()
                            if snap(m) != first:
                                bad('canonicalize is not idempotent', first=str(m))
                            m.canonicalize()
                            if snap(m) != first:
                                bad('canonicalize oscillates', first=str(m))
                            forms.append(str(m))
                        except Exception as e:
                            bad('canonicalize raised %s' % type(e).__name__)
                    if len(forms) == 2 and r1 != r2 and forms[0] != forms[1] and '(C)' not in r1:
                        mkbad(acc, '%s[C@H](%s)%s%s' % (a, b, link, r1))('two charge spellings of one azolium cation reach different canonical forms', got=forms)
                    acc.outcomes['azolium'] += 1
    acc.sample({'azolium scan': 'a[C@H](b)-link-ring, 12x11 substituent pairs x 2 linkers x 4 rings x 2 charge spellings'})
    return acc


OTHER_OPS = {
    'kekule': lambda m: m.kekule(),
    'thiele': lambda m: (m.kekule(), _warm(m), m.thiele()),
    'clean_isotopes': lambda m: m.clean_isotopes(),
    'clean_stereo': lambda m: m.clean_stereo(),
    'remove_acids': lambda m: m.remove_acids(),
    'remove_coordinate_bonds': lambda m: m.remove_coordinate_bonds(),
    'remove_metals': lambda m: m.remove_metals(),
    'saturate': lambda m: m.saturate(),
    'fix_stereo': lambda m: m.fix_stereo(),
    'explicify then implicify': lambda m: (m.explicify_hydrogens(), _warm(m), m.implicify_hydrogens()),
    'neutralize then standardize': lambda m: (m.neutralize(), _warm(m), m.standardize()),
}


def run_other_ops(shard):
    """every other public operation that edits a molecule in place: with every memo populated beforehand, the derived values of the processed object must equal those of a
    recomputed copy (nothing the operation forgot to drop survives); conservation clauses do not apply to these operations"""
    from chython import smiles
    k, nsh, tier = shard
    acc = Acc()
    rows = ['CC(=O)[O-].[Na+]', 'C[NH3+].[Cl-]', 'OC(=O)CC[NH3+].[Cl-]', 'c1ccccc1O', 'Oc1ccccn1', 'c1cc[nH]c1', 'C[C@H](N)C(=O)O', 'C/C=C/C', '[13CH3]C([2H])O', 'Cl[Pt](Cl)(N)N', 'C~[Fe]~C', 'N~[Cu]~N.O',
            '[Fe](C#O)(C#O)(C#O)(C#O)C#O', 'CC(=O)O[Na]', 'C[Mg]Br', 'O.O.[Cu+2].[O-]S([O-])(=O)=O', 'CC(O)=O.CN', 'c1ccccc1.Cl', 'C1CC1.[Na+].[OH-]', 'OS(=O)(=O)O.NCCN', 'C[C@H]1CC[C@@H](O)CC1',
            'CC=[C@]=CC', '[CH3]', 'C[O]', '[Na+].[Cl-].C1CCOC1', 'O=C(O)C(F)(F)F.CCN(CC)CC', '[Li]CCCC', 'C[Si](C)(C)C.[K+].[F-]']
    # every acid of the salt-stripping table (ring-bearing ones in both ring spellings) with three bases
    acids_ = ['Cl', 'Br', 'I', 'O[N+](=O)[O-]', 'ON=O', 'OP(O)(O)=O', 'COP(O)(=O)OC', 'OS(O)(=O)=O', 'CS(O)(=O)=O', 'OS(=O)(=O)C(F)(F)F', 'CC1=CC=C(C=C1)S(O)(=O)=O', 'Cc1ccc(cc1)S(O)(=O)=O',
              'OC(O)=O', 'CC(O)=O', 'OC(=O)C(F)(F)F', 'OCC(O)=O', 'CC(O)C(O)=O', 'OC(=O)C(O)=O', 'OC(=O)C(Cl)Cl', 'OC(=O)C=CC(O)=O', 'OC(C(O)C(O)=O)C(O)=O', 'O[Cl](=O)(=O)=O']
    rows += ['%s.%s' % (b_, a_) for a_ in acids_ for b_ in ('CCN', 'c1ccncc1', 'C1CCNCC1')] + ['Cc1ccc(cc1)S(O)(=O)=O.CCN.Cc1ccc(cc1)S(O)(=O)=O', '[Na+].[O-]c1ccccc1', '[K+].[O-]C(=O)c1ccccc1.C1CCOC1']
    rows += inputs.organometallics()[::6] + M.corpus(stride=40 if tier == 'quick' else 8)
    for i, s in enumerate(rows):
        if i % nsh != k:
            continue
        try:
            m0 = smiles(s)
        except Exception:
            continue
        for name, f in OTHER_OPS.items():
            acc.states += 1
            acc.transitions += 1
            m = m0.copy()
            _warm(m)
            try:
                f(m)
            except Exception as e:
                acc.outcomes[('operation raised', name, type(e).__name__)] += 1
                continue
            try:
                r = coherent(m)
            except Exception as e:
                acc.fail('derived values cannot be read after %s: %s' % (name, type(e).__name__), mol=s, op=name)
                continue
            if r:
                acc.fail('derived value "%s" of the processed object is stale after %s' % (r, name), mol=s, op=name)
            acc.outcomes[name] += 1
    acc.sample({'operations': list(OTHER_OPS), 'inputs': rows[:6]})
    return acc


def plan(tier, seed):
    return [Stage('small scope x operations x numberings', run_small, [(k, 64, tier) for k in range(64)], 'valence-valid D(<=%d,2) over N,O,S,P,B,Cl with charges/radicals x 11 operations x ALL/GEN numberings' % (4 if tier == 'quick' else 5)),
            Stage('every rule pattern instantiated', run_rules, [(k, 32, tier) for k in range(32)], '125 patterns of the standardisation/charge tables instantiated as molecules (element, bond-order and padding variants)'),
            Stage('charged azoles x substituent scan', run_azolium, [(k, 16, tier) for k in range(16)], 'imidazolium / pyrazolium (4 ring spellings) x 12x11 substituent pairs on a remote stereocentre x 2 linkers: idempotence, one form per cation'),
            Stage('documented functional-group pairs', run_documented, [0], 'the (input, canonical) pairs of standardize/test/test_groups.py'),
            Stage('corpus, organometallics, special cases', run_corpus, [(k, 64, tier) for k in range(64)], 'corpus stride %d (tautomer fixing enabled for equivariance), organometallic combinator, zwitterions / gem-dinitro / sulfur cations / tautomerisable rings; tautomer enumeration' % (16 if tier == 'quick' else 2)),
            Stage('cache coherence after the other in-place operations', run_other_ops, [(k, 16, tier) for k in range(16)],
                  '11 operations / operation pairs (kekule, thiele, clean_isotopes, clean_stereo, remove_acids, remove_coordinate_bonds, remove_metals, saturate, fix_stereo, ...) '
                  'x salts, complexes, stereo molecules, corpus stride %d with every memo populated beforehand' % (40 if tier == 'quick' else 8))]


def replay(rec):
    from chython import smiles
    tag = rec['mol']
    acc = Acc()
    if rec.get('op') in OTHER_OPS and ('stale after' in rec.get('key', '') or 'cannot be read after' in rec.get('key', '')):
        for k in range(16):
            acc.merge(run_other_ops((k, 16, 'thorough')))
        return [f for f in acc.fails if f['key'] == rec['key'] and f.get('mol') == tag]
    if 'tautomer' in rec.get('key', ''):
        import vf.props.c14 as me
        keep_c, keep_o, keep_t = M.corpus, inputs.organometallics, inputs.tautomer_stereo_family
        M.corpus, inputs.organometallics, inputs.tautomer_stereo_family = (lambda **kw: [tag]), (lambda: []), (lambda: [])
        try:
            for k in range(64):
                acc.merge(run_corpus((k, 64, 'thorough')))
        finally:
            M.corpus, inputs.organometallics, inputs.tautomer_stereo_family = keep_c, keep_o, keep_t
        return [f for f in acc.fails if f['key'] == rec['key']]
    if '[C@H](' in tag and ('[nH+]' in tag or '[n+]' in tag) and 'azolium' in rec.get('key', '') + 'azolium' and ('idempotent' in rec['key'] or 'oscillates' in rec['key'] or 'charge spellings' in rec['key']):
        for k in range(16):
            acc.merge(run_azolium((k, 16, 'thorough')))
        return [f for f in acc.fails if f['key'] == rec['key']]
    if ' -> ' in tag and not tag.startswith('n'):
        a = run_documented(0)
        return [f for f in a.fails if f['key'] == rec['key']]
    if ' as ' in tag and '[' in tag.split(' ')[0]:
        for k in range(32):
            acc.merge(run_rules((k, 32, 'thorough')))
        return [f for f in acc.fails if f['key'] == rec['key']]
    if tag.startswith('n'):
        for spec in M.scope(5, 2, elements=['N', 'O', 'S', 'P', 'B', 'Cl']):
            if spec['tag'] == tag:
                m = M.to_chython(spec)
                nums = list(m)
                perms = list(itertools.permutations(nums))[1:] if len(nums) <= 4 else [list(p.values()) for p in graphs.gen_perms(nums)][1:]
                check_ops(acc, m, tag, mkbad(acc, tag), list(OPS), perms)
    else:
        m = smiles(tag)
        m.kekule()
        nums = list(m)
        check_ops(acc, m, tag, mkbad(acc, tag), list(OPS), [nums[::-1], nums[1:] + nums[:1], nums[len(nums) // 2:] + nums[:len(nums) // 2]], taut_perms=True)
    return [f for f in acc.fails if f['key'] == rec['key']]
