"""C06 -- ring perception is a minimum cycle basis and the ring marks agree with it."""
import itertools
import os

from ..core import Acc, Stage
from ..oracle import cycles
from ..scope import graphs
from .. import mk

META = {
    'technique': 'bounded exhaustive enumeration of every labelled graph in scope against a Horton/GF(2) minimum-cycle-basis oracle',
    'rule': 'every labelled connected graph (edge subset of K_n, max degree 4) is one distinct state; each state is run through the real '
            'MoleculeContainer ring code; coordinate-bond variants, ring assemblies and macrocycles under the GEN renumbering family are extra states',
    'assumptions': ['Horton candidate set + greedy GF(2) elimination yields the MCB size multiset (matroid greedy)',
                    'claimed domain excludes theta cores with three >=3-bond bridges and cyclomatic number >= 6 on <= 7 atoms (property text)'],
}


def judge(m, nodes, edges, order8=None):
    """returns None or a short reason. m: molecule, edges: list of (a,b) (a<b), order8: one edge carrying order 8."""
    full = graphs.adj_of(nodes, edges)
    e1 = [e for e in edges if e != order8]
    adj = graphs.adj_of(nodes, e1)
    mu = cycles.cyclomatic(adj)
    try:
        rings = list(m.sssr)
        if m.rings_count != mu:
            return 'rings_count %d!=%d' % (m.rings_count, mu)
        r = cycles.check_basis(adj, rings)
        if r:
            return r
        # derived containers
        ar = {}
        for rg in rings:
            for n in rg:
                ar.setdefault(n, []).append(tuple(rg))
        if {k: sorted(v) for k, v in m.atoms_rings.items()} != {k: sorted(v) for k, v in ar.items()}:
            return 'atoms_rings'
        ars = {k: {len(x) for x in v} for k, v in ar.items()}
        if dict(m.atoms_rings_sizes) != ars:
            return 'atoms_rings_sizes'
        br = cycles.bridges(adj)
        ring_atoms = {x for e in e1 if e not in br for x in e}
        for n, a in m.atoms():
            if bool(a.in_ring) != (n in ring_atoms):
                return 'atom.in_ring'
            if set(a.ring_sizes) != ars.get(n, set()):
                return 'atom.ring_sizes'
        for a, b, bond in m.bonds():
            e = (a, b) if a < b else (b, a)
            if e == order8:
                continue
            if bool(bond.in_ring) != (e not in br):
                return 'bond.in_ring'
        cc = {frozenset(c) for c in m.connected_components}
        if cc != {frozenset(c) for c in cycles.components(full)} or len(cc) != m.connected_components_count:
            return 'connected_components'
        if tuple(m.aromatic_rings) != ():
            return 'aromatic_rings'
    except Exception as e:  # ring code must not raise inside the claimed domain
        return 'EXC ' + type(e).__name__
    return None


def _case(acc, nodes, edges, skip, order8=None, tag=''):
    acc.states += 1
    acc.transitions += 1
    try:
        m = mk.carbon_graph(nodes, edges, skip=skip, order8=order8)
    except Exception as e:  # constructing a molecule from a valid graph must not raise
        m = None
        r = 'EXC-build ' + type(e).__name__
    else:
        r = judge(m, nodes, edges, order8)
    mu = len(edges) - len(list(nodes) if not isinstance(nodes, int) else range(nodes)) + 1
    if r:
        acc.outcomes['FAIL ' + r.split()[0]] += 1
        acc.fail('%s %s' % (tag, r.split()[0]), nodes=list(range(1, nodes + 1)) if isinstance(nodes, int) else list(nodes),
                 edges=[list(e) for e in edges], order8=list(order8) if order8 else None, skip=skip, reason=r)
    else:
        acc.outcomes[(tag, tuple(sorted(len(x) for x in m.sssr)))] += 1
    return m


def run_labelled(shard):
    n, k, nsh, coord = shard
    acc = Acc()
    skip = n >= 7
    gen = graphs.labelled_connected(n, 1, 5, 4, k, nsh) if n <= 7 else graphs.labelled_connected_by_size(n, 1, 3, 4, k, nsh)
    for bits, edges in gen:
        nodes = n
        adj = None
        if n >= 8:
            adj = graphs.adj_of(n, edges)
            if cycles.theta_core_gap(adj):
                acc.ood['theta_core_all_bridges>=3'] += 1
                # still executed: must not raise anything but is never judged
                try:
                    mk.carbon_graph(n, edges, skip=True).sssr
                except Exception:
                    pass
                continue
        _case(acc, nodes, edges, skip, tag='n%d' % n)
        if acc.states <= 2 and k == 0:
            acc.sample({'n': n, 'edges': edges})
        if coord:
            for e in edges:
                _case(acc, nodes, edges, skip, order8=e, tag='n%d+coord' % n)
    return acc


# ---------------------------------------------------------------- ring assemblies & macrocycles under GEN

def ring(start, size):
    nodes = list(range(start, start + size))
    return nodes, [(nodes[i], nodes[(i + 1) % size]) for i in range(size)]


def assemblies(sizes=(3, 4, 5, 6, 7, 8), triples=False):
    """deterministic combinator: spiro (1 shared atom), fused (1 shared bond), bridged (2 shared bonds),
    linked (a linker bond) unions of two rings; optionally a third ring fused to the second."""
    out = []
    for s1, s2 in itertools.combinations_with_replacement(sizes, 2):
        n1, e1 = ring(1, s1)
        for mode, share in (('spiro', 1), ('fused', 2), ('bridged', 3), ('linked', 0)):
            if share >= s2 or share >= s1:
                continue
            # second ring reuses the first `share` atoms of ring 1 as a path
            new = list(range(s1 + 1, s1 + 1 + s2 - share))
            path = n1[:share] if share else []
            if mode == 'linked':
                n2, e2 = ring(s1 + 1, s2)
                edges = e1 + e2 + [(1, s1 + 1)]
                nodes = n1 + n2
            else:
                cyc = path + new
                e2 = [(cyc[i], cyc[(i + 1) % len(cyc)]) for i in range(len(cyc))]
                edges = list(e1)
                have = {frozenset(e) for e in e1}
                for e in e2:
                    if frozenset(e) not in have:
                        edges.append(e)
                        have.add(frozenset(e))
                nodes = n1 + new
            out.append(('%s-%d-%d' % (mode, s1, s2), nodes, edges))
            if triples:
                for s3 in sizes:
                    last = nodes[-1]
                    prev = nodes[-2]
                    if frozenset((last, prev)) not in {frozenset(e) for e in edges}:
                        continue
                    new3 = list(range(last + 1, last + 1 + s3 - 2))
                    cyc = [prev, last] + new3
                    e3 = [(cyc[i], cyc[(i + 1) % len(cyc)]) for i in range(len(cyc))][1:]
                    out.append(('%s-%d-%d+fused-%d' % (mode, s1, s2, s3), nodes + new3, edges + e3))
    return out


def run_assemblies(shard):
    k, nsh, triples, maxmacro = shard
    acc = Acc()
    fam = assemblies(triples=triples)
    fam += [('macro-%d' % s,) + ring(1, s) for s in range(9, maxmacro + 1)]
    for i, (name, nodes, edges) in enumerate(fam):
        if i % nsh != k:
            continue
        edges = [tuple(sorted(e)) for e in edges]
        adj = graphs.adj_of(nodes, edges)
        if cycles.theta_core_gap(adj):
            acc.ood['theta_core_all_bridges>=3'] += 1
            continue
        deg = max(len(v) for v in adj.values())
        if deg > 4:
            continue
        for p in graphs.gen_perms(nodes):
            pe = [tuple(sorted((p[a], p[b]))) for a, b in edges]
            _case(acc, sorted(p.values()), pe, True, tag=name.split('-')[0])
        if i < 3:
            acc.sample({'assembly': name, 'edges': edges})
    return acc


def run_sdf(shard):
    """the repository's ring test set: every record, under GEN renumberings, judged by the same oracle."""
    from chython import SDFRead
    from ..boot import REPO
    k, nsh = shard
    acc = Acc()
    p = os.path.join(REPO, 'test', 'cycle.sdf')
    if not os.path.exists(p):
        acc.info['cycle.sdf missing'] += 1
        return acc
    with SDFRead(p) as f:
        recs = list(f)
    for i, m in enumerate(recs):
        if i % nsh != k:
            continue
        nodes = list(m)
        e8 = [tuple(sorted((a, b))) for a, b, bd in m.bonds() if bd == 8]
        edges = [tuple(sorted((a, b))) for a, b, bd in m.bonds() if bd != 8]
        adj = graphs.adj_of(nodes, edges)
        mu = cycles.cyclomatic(adj)
        if cycles.theta_core_gap(adj):
            acc.ood['theta_core_all_bridges>=3'] += 1
            continue
        if len(nodes) <= 7 and mu >= 6:
            acc.ood['dense_cage'] += 1
            continue
        perms = graphs.gen_perms(nodes)[:: max(1, len(nodes) // 6)]
        for p_ in perms:
            pe = [tuple(sorted((p_[a], p_[b]))) for a, b in edges]
            acc.states += 1
            acc.transitions += 1
            mm = mk.carbon_graph(sorted(p_.values()), pe, skip=True)
            r = cycles.check_basis(graphs.adj_of(sorted(p_.values()), pe), list(mm.sssr)) if mu else None
            if r is None and mu == 0 and list(mm.sssr):
                r = 'count'
            if r:
                acc.fail('cycle.sdf#%d %s' % (i, r.split()[0]), record=i, nodes=sorted(p_.values()), edges=[list(e) for e in pe], reason=r,
                         order8=None, skip=True)
            acc.outcomes[('sdf', mu)] += 1
    return acc


def plan(tier, seed):
    st = []
    for n in (3, 4, 5, 6):
        st.append(Stage('labelled n=%d (+coord bond)' % n, run_labelled, [(n, k, 4 if n < 6 else 16, True) for k in range(4 if n < 6 else 16)],
                        'all labelled connected graphs, 1<=rings<=5, deg<=4; each bond once as order 8'))
    st.append(Stage('labelled n=7', run_labelled, [(7, k, 128, False) for k in range(128)], 'all labelled connected graphs n=7, 1<=rings<=5, deg<=4'))
    st.append(Stage('assemblies+macrocycles GEN', run_assemblies, [(k, 32, tier == 'thorough', 70) for k in range(32)],
                    'spiro/fused/bridged/linked unions of 3..8 rings%s, macrocycles 9..70, GEN renumberings' % (' + third fused ring' if tier == 'thorough' else '')))
    st.append(Stage('test/cycle.sdf GEN', run_sdf, [(k, 16) for k in range(16)], 'every record of test/cycle.sdf as carbon skeleton under a GEN subset'))
    if tier == 'thorough':
        st.append(Stage('labelled n=8 rings<=3', run_labelled, [(8, k, 512, False) for k in range(512)],
                        'all labelled connected graphs n=8, 1<=rings<=3, deg<=4 (theta-core gap excluded)'))
    return st


def replay(rec):
    nodes = rec['nodes']
    edges = [tuple(e) for e in rec['edges']]
    o8 = tuple(rec['order8']) if rec.get('order8') else None
    try:
        m = mk.carbon_graph(nodes, edges, skip=rec.get('skip', True), order8=o8)
    except Exception as e:
        return [{'key': rec['key'], 'reason': 'EXC-build ' + type(e).__name__}]
    r = judge(m, nodes, edges, o8)
    return [{'key': rec['key'], 'reason': r}] if r else []
