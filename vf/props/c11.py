"""C11 -- MDL V2000/V3000 and MRV files: write then read preserves the record; damaged records are skipped; random access."""
import io
import itertools
import os
import shutil
import tempfile

from ..core import Acc, Stage
from ..scope import molecules as M, inputs

META = {
    'technique': 'bounded exhaustive enumeration of records x file formats x field values x corruption positions on the real writers/readers; field-by-field comparison, RDKit as the other program',
    'rule': 'one state per (record, format) / (metadata string) / (corruption kind, position) / (index)',
    'assumptions': ['metadata values are compared modulo the reader normalisation visible in its source: every line stripped, empty lines dropped',
                    'explicit hydrogens on stereocentres are excluded (property text)'],
}

FORMATS = ['SDF', 'ESDF', 'RDF', 'ERDF', 'MRV']


def write_records(fmt, records, mapping=True):
    from chython import files
    buf = io.StringIO()
    cls = {'SDF': files.SDFWrite, 'ESDF': files.ESDFWrite, 'RDF': files.RDFWrite, 'ERDF': files.ERDFWrite, 'MRV': files.MRVWrite}[fmt]
    w = cls(buf, mapping=mapping)
    for r in records:
        w.write(r)
    if fmt == 'MRV':
        w.close(force=False) if hasattr(w, 'close') else None
        try:
            w.finalize()
        except Exception:
            pass
    return buf.getvalue()


def read_records(fmt, text):
    from chython import files
    if fmt in ('SDF', 'ESDF'):
        return list(files.SDFRead(io.StringIO(text), calc_cis_trans=True))
    if fmt in ('RDF', 'ERDF'):
        return list(files.RDFRead(io.StringIO(text), calc_cis_trans=True))
    return list(files.MRVRead(io.BytesIO(text.encode()), calc_cis_trans=True))


def atom_rec(m, with_numbers=True):
    return [((n if with_numbers else None), a.atomic_symbol, a.isotope, a.charge, a.is_radical) for n, a in m.atoms()]


def bond_rec(m):
    pos = {n: i for i, n in enumerate(m)}
    return sorted((min(pos[a], pos[b]), max(pos[a], pos[b]), bd.order) for a, b, bd in m.bonds())


def norm_meta(v):
    return '\n'.join(x.strip() for x in str(v).split('\n') if x.strip())


def compare_mol(a, b, bad, tag, numbers=True, stereo=True):
    if atom_rec(a, numbers) != atom_rec(b, numbers):
        bad('atoms differ after write/read', case=tag, got=atom_rec(b, numbers)[:6], expected=atom_rec(a, numbers)[:6])
        return False
    if bond_rec(a) != bond_rec(b):
        bad('bonds differ after write/read', case=tag)
        return False
    if stereo:
        from .c02 import stereo_descr
        try:
            da, db = stereo_descr(a), stereo_descr(b) if numbers else None
            if numbers and da != db:
                bad('configuration differs after write/read', case=tag, got=sorted(db.items(), key=repr)[:3], expected=sorted(da.items(), key=repr)[:3])
                return False
        except Exception as e:
            bad('stereo comparison raised %s' % type(e).__name__, case=tag)
            return False
    return True


def layout(m):
    """deterministic 2D coordinates from RDKit for a chython molecule parsed from text (same atom order)"""
    return m


def mols_for_roundtrip(tier):
    from chython import smiles, MoleculeContainer
    from chython.periodictable import Element
    out = []
    for i, spec in enumerate(M.scope(4, 1)):
        m = M.to_chython(spec)
        if not m.check_valence() and not any(a.atomic_number == 1 for _, a in m.atoms()):
            out.append((spec['tag'], m))
    for ch in range(-4, 5):
        m = MoleculeContainer()
        m.add_atom(Element.from_symbol('Fe')(charge=ch), 7)
        out.append(('Fe charge %d' % ch, m))
        m = MoleculeContainer()
        m.add_atom(Element.from_symbol('Zr')(charge=ch), 1)
        m.add_atom(Element.from_symbol('Cl')(charge=-1), 2)
        m.add_atom(Element.from_symbol('N')(charge=1 if ch != 1 else 0), 3)
        out.append(('Zr charge %d + Cl- + N' % ch, m))
    for z in (list(range(1, 119)) if tier == 'thorough' else list(range(1, 119, 5))):
        cls = Element.from_atomic_number(z)
        for iso in [None] + sorted(cls().isotopes_masses)[:: (1 if tier == 'thorough' else 3)]:
            m = MoleculeContainer()
            m.add_atom(cls(iso), 1)
            out.append(('%s isotope %s' % (cls.__name__, iso), m))
    # one atom carrying two or three of isotope / radical / charge (each has its own property line in V2000)
    for s in ('C[13CH]C |^1:1|', '[13CH3] |^1:0|', '[13CH2+]C', '[15NH3+]C', 'C[13CH-]C', '[56Fe+4]', '[57Fe-4]', '[18O-]C', '[13CH2]C[15NH3+] |^1:0|', '[2H][13C]([2H])[2H] |^1:1|', '[Ti+4]', '[46Ti+4]', 'C[N+]([O-])=O'):
        try:
            out.append((s, smiles(s)))
        except Exception:
            pass
    for s in ('C[CH2] |^1:1|', '[CH3] |^1:0|', 'C~[Fe]', 'CC#N', 'C=C', 'c1ccccc1', 'c1ccncc1', 'C[N+](C)(C)C', 'CC(=O)[O-].[Na+]', '[13CH3][2H]', 'C1CC1', 'N#C[Fe-4](C#N)(C#N)(C#N)(C#N)C#N'):
        try:
            out.append((s, smiles(s)))
        except Exception:
            pass
    # atom numbers up to 999 with mapping
    for nums in ((1, 2, 3), (999, 500, 1), (17, 3, 250)):
        m = smiles('CCO')
        m.remap({1: 2001, 2: 2002, 3: 2003})
        m.remap(dict(zip((2001, 2002, 2003), nums)))
        out.append(('CCO numbered %s' % (nums,), m))
    return out


def stereo_mols(tier):
    from chython import smiles
    from rdkit import Chem
    from rdkit.Chem import AllChem
    out = []
    fam = inputs.ring_stereo_family()[:: (3 if tier == 'quick' else 1)] + ['C[C@H](N)C(=O)O', 'C/C=C/C', 'C/C=C\\C', 'C[C@H](O)/C=C/C', 'C[C@@H]1CCCC[C@H]1C', 'F[C@](Cl)(Br)I'] + ALLENES_2D
    for t_ in ('C[C{0}H](O)[C{1}H](O)[C{2}H](O)C', 'C[C{0}H]1C[C{1}H](C)C[C{2}H](C)C1', 'O[C{0}H]1[C{1}H](O)[C{2}H]1O', 'C[C{0}H](O)[C{1}H](O)C'):
        for cmb in itertools.product(('@', '@@'), repeat=t_.count('{')):
            fam.append(t_.format(*cmb))
    fam += [s for s in M.corpus(stride=16 if tier == 'quick' else 4) if ('@' in s or '/' in s)]
    for s in fam:
        if '=C=C=' in s and ('/' in s or '\\' in s):
            continue   # cis/trans of a cumulene lives in the 2D geometry only, and the layout engine used here (RDKit) does not know this kind of stereo
        rd = Chem.MolFromSmiles(s)
        if rd is None:
            continue
        try:
            m = smiles(s)
            m.kekule()
        except Exception:
            continue
        if len(m) != rd.GetNumAtoms():
            continue
        AllChem.Compute2DCoords(rd)
        cf = rd.GetConformer()
        for i, (_, a) in enumerate(m.atoms()):
            p = cf.GetAtomPosition(i)
            a.xy = (p.x, p.y)
        m.flush_cache()
        out.append((s, m))
        if s in ALLENES_2D:
            # the wedge the writer picks, and the branch of the reader it ends in, depend on the drawing: rotated and mirrored drawings of the same labelled molecule
            import math
            for ang, mirror in ((73, False), (180, False), (0, True), (131, True)):
                mm = m.copy()
                r = math.radians(ang)
                for _, a in mm.atoms():
                    x, y = a.x, a.y
                    if mirror:
                        x = -x
                    a.xy = (x * math.cos(r) - y * math.sin(r), x * math.sin(r) + y * math.cos(r))
                mm.flush_cache()
                out.append(('%s drawn rotated %d%s' % (s, ang, ' mirrored' if mirror else ''), mm))
    return out


ALLENES_2D = ['CC=[C@]=CC', 'CC(Cl)=[C@]=C(C)Br', 'CC(Br)=[C@]=C(C)Cl', 'CC(Cl)=[C@@]=C(C)Br', 'CC(F)=[C@]=C(Cl)C', 'OC(C)=[C@]=C(N)CC', 'FC=[C@]=C(Cl)Br', 'CC(C)C=[C@@]=C(C)CC']


def run_roundtrip(shard):
    from rdkit import RDLogger
    RDLogger.DisableLog('rdApp.*')
    k, nsh, tier = shard
    acc = Acc()
    mols = mols_for_roundtrip(tier) + stereo_mols(tier)
    for mi, (tag, m) in enumerate(mols):
        if mi % nsh != k:
            continue
        for fmt in FORMATS:
            for mapping in (True, False):
                acc.states += 1
                acc.transitions += 2
                case = '%s | %s | mapping=%s' % (tag, fmt, mapping)

                def bad(what, **d):
                    acc.fail('%s :: %s' % (what, fmt), **d)
                    acc.outcomes['FAIL ' + what] += 1
                mm = m.copy()
                mm.name = 'title %d' % mi
                mm.meta['key'] = 'value %d' % mi
                try:
                    text = write_records(fmt, [mm], mapping)
                except Exception as e:
                    bad('writer raised %s' % type(e).__name__, case=case)
                    continue
                try:
                    back = read_records(fmt, text)
                except Exception as e:
                    bad('reader raised %s' % type(e).__name__, case=case)
                    continue
                if len(back) != 1:
                    bad('written record is not read back', case=case, got=len(back))
                    continue
                b = back[0]
                if not compare_mol(mm, b, bad, case, numbers=mapping, stereo=True):
                    continue
                if not mapping and list(b) != list(range(1, len(b) + 1)):
                    bad('atoms are not numbered 1..n when mapping is off', case=case)
                if b.name != mm.name:
                    bad('title differs after write/read', case=case, got=b.name, expected=mm.name)
                if {kk: vv for kk, vv in b.meta.items() if not kk.startswith('chython_')} != {'key': 'value %d' % mi}:
                    bad('metadata differ after write/read', case=case, got=dict(b.meta))
                acc.outcomes[fmt] += 1
        if mi < 3:
            acc.sample({'record': tag, 'formats': FORMATS})
    return acc


def run_reactions(shard):
    from chython import smiles, ReactionContainer
    acc = Acc()
    pool = [smiles(s) for s in ('CCO', 'CC(=O)O', '[Na+]', 'C=C', 'CN')]
    for a, b, c in itertools.product(range(3), repeat=3):
        if a + b + c == 0:
            continue
        mols = []
        k = 1
        for i in range(a + b + c):
            m = pool[i % len(pool)].copy()
            m.remap({n: n + 1000 for n in list(m)})
            m.remap({n: k + j for j, n in enumerate(list(m))})
            k += len(m)
            mols.append(m)
        r = ReactionContainer(mols[:a], mols[a + b:], mols[a:a + b])
        r.name = 'rxn %d%d%d' % (a, b, c)
        r.meta['yield'] = '42'
        for fmt in ('RDF', 'ERDF', 'MRV'):
            acc.states += 1
            acc.transitions += 2
            case = 'reaction (%d,%d,%d) | %s' % (a, b, c, fmt)

            def bad(what, **d):
                acc.fail('%s :: %s' % (what, fmt), **d)
                acc.outcomes['FAIL ' + what] += 1
            try:
                text = write_records(fmt, [r])
                back = read_records(fmt, text)
            except Exception as e:
                bad('reaction write/read raised %s' % type(e).__name__, case=case)
                continue
            if len(back) != 1 or not isinstance(back[0], ReactionContainer):
                bad('written reaction is not read back as a reaction', case=case)
                continue
            rb = back[0]
            if (len(rb.reactants), len(rb.reagents), len(rb.products)) != (a, b, c):
                bad('reaction roles differ after write/read', case=case, got=[len(rb.reactants), len(rb.reagents), len(rb.products)], expected=[a, b, c])
                continue
            ok = True
            for x, y in zip(r.molecules(), rb.molecules()):
                if not compare_mol(x, y, bad, case, numbers=True, stereo=False):
                    ok = False
                    break
            if ok and dict(rb.meta) != {'yield': '42'}:
                bad('reaction metadata differ after write/read', case=case, got=dict(rb.meta))
            acc.outcomes[(fmt, a, b, c)] += 1
    # stereo molecules with a 2D layout in every role, three reactions per file: configuration kept, no record lost
    from rdkit import RDLogger
    RDLogger.DisableLog('rdApp.*')
    sm = [m for _, m in stereo_mols('quick') if len(m) <= 12][:6]
    plain = pool[0]
    for fmt in ('RDF', 'ERDF', 'MRV'):
        for si, st in enumerate(sm):
            for role in (0, 1, 2):
                acc.states += 1
                acc.transitions += 2
                parts = [[], [], []]
                k = 1
                for r_ in (0, 1, 2):
                    src = st if r_ == role else plain
                    c_ = src.copy()
                    c_.remap({n: n + 1000 for n in list(c_)})
                    c_.remap({n: k + j for j, n in enumerate(list(c_))})
                    k += len(c_)
                    parts[r_].append(c_)
                rx = ReactionContainer(parts[0], parts[2], parts[1])
                rx.name = 'stereo rxn'
                other = ReactionContainer([pool[3].copy()], [pool[4].copy()])
                other.name = 'after'
                case = 'stereo molecule %d in role %d | %s' % (si, role, fmt)

                def bad(what, **d):
                    acc.fail('%s :: %s' % (what, fmt), **d)
                    acc.outcomes['FAIL ' + what] += 1
                try:
                    back = read_records(fmt, write_records(fmt, [rx, other]))
                except Exception as e:
                    bad('reaction file with stereo molecules: write/read raised %s' % type(e).__name__, case=case)
                    continue
                if len(back) != 2:
                    bad('reaction file with stereo molecules: a record is lost', case=case, got=len(back))
                    continue
                for x, y in zip(rx.molecules(), back[0].molecules()):
                    if not compare_mol(x, y, bad, case, numbers=True, stereo=True):
                        break
    acc.sample({'reaction role counts': '{0,1,2}^3', 'formats': ['RDF', 'ERDF', 'MRV'], 'stereo molecules': 'in each role, two records per file'})
    return acc


def run_metadata(shard):
    from chython import smiles
    acc = Acc()
    alpha = ['a', ' ', '<', '>', '&', '$', '\n', '-']
    strings = [''.join(c) for L in (1, 2, 3) for c in itertools.product(alpha, repeat=L)]
    m0 = smiles('CCO')
    for fmt in ('SDF', 'ESDF', 'RDF', 'MRV'):
        for s in strings:
            for where in ('value', 'key', 'title'):
                if where != 'value' and '\n' in s:
                    continue
                acc.states += 1
                acc.transitions += 2
                mm = m0.copy()
                exp_meta = {}
                exp_name = ''
                if where == 'value':
                    if not s.strip() or any(l.startswith(('$$$$', '>', '$')) for l in s.split('\n')):
                        acc.ood['empty or delimiter-looking metadata line'] += 1
                        continue
                    mm.meta['k'] = s
                    exp_meta = {'k': norm_meta(s)}
                elif where == 'key':
                    if not s.strip() or s.strip() != s or '  ' in s:
                        acc.ood['key with outer/double blanks'] += 1
                        continue
                    mm.meta[s] = 'v'
                    exp_meta = {s: 'v'}
                else:
                    if s.strip() != s or s.startswith('$'):
                        acc.ood['title with outer blanks'] += 1
                        continue
                    mm.name = s
                    exp_name = s
                case = '%s %r | %s' % (where, s, fmt)

                def bad(what, **d):
                    acc.fail('%s :: %s' % (what, fmt), **d)
                    acc.outcomes['FAIL ' + what] += 1
                try:
                    back = read_records(fmt, write_records(fmt, [mm]))
                except Exception as e:
                    bad('%s with special characters: write/read raised %s' % (where, type(e).__name__), case=case)
                    continue
                if len(back) != 1:
                    bad('%s with special characters: record lost' % where, case=case)
                    continue
                b = back[0]
                if where == 'title' and b.name != exp_name:
                    bad('title differs after write/read', case=case, got=b.name)
                elif where != 'title' and dict(b.meta) != exp_meta:
                    bad('metadata %s differs after write/read' % where, case=case, got=dict(b.meta), expected=exp_meta)
                acc.outcomes[(fmt, where)] += 1
    # values made of lines that look like connection-table keywords, between two other items (added after seed C11-h2):
    # the structure/metadata boundary of a record is the FIRST 'M  END', whatever the values contain
    kw = ['M  END', 'v', 'M  END x', 'M  V30 END CTAB']
    for fmt in ('SDF', 'ESDF', 'RDF', 'MRV'):
        for L in (1, 2):
            for ls in itertools.product(kw, repeat=L):
                acc.states += 1
                acc.transitions += 2
                mm = m0.copy()
                mm.meta['j'] = 'w'
                mm.meta['k'] = '\n'.join(ls)
                mm.meta['l'] = 'x'
                exp_meta = {'j': 'w', 'k': norm_meta('\n'.join(ls)), 'l': 'x'}
                case = 'keyword value %r | %s' % ('\n'.join(ls), fmt)
                try:
                    back = read_records(fmt, write_records(fmt, [mm]))
                except Exception as e:
                    acc.fail('value with keyword-looking lines: write/read raised %s :: %s' % (type(e).__name__, fmt), case=case)
                    continue
                if len(back) != 1 or str(back[0]) != str(m0):
                    acc.fail('value with keyword-looking lines: record lost or changed :: %s' % fmt, case=case)
                elif dict(back[0].meta) != exp_meta:
                    acc.fail('metadata value with keyword-looking lines differs after write/read :: %s' % fmt, case=case, got=dict(back[0].meta), expected=exp_meta)
                acc.outcomes[(fmt, 'keyword value')] += 1
    acc.sample({'strings': 'all of length <=3 over %r' % alpha, 'places': ['value', 'key', 'title'], 'keyword lines': kw})
    return acc


def corruptions(lines, rec_spans):
    """(kind, touched record indices, new lines). rec_spans: list of (start, end) line ranges of each record"""
    out = []
    for ri, (s, e) in enumerate(rec_spans):
        for i in range(s, e):
            out.append(('delete line', {ri} | ({ri + 1} if lines[i].startswith('$$$$') else set()), lines[:i] + lines[i + 1:]))
            if i == s + 3:
                out.append(('non-numeric counts', {ri}, lines[:i] + ['xxxyyy' + lines[i][6:]] + lines[i + 1:]))
            if s + 4 <= i < s + 6 and len(lines[i]) > 40:
                out.append(('non-numeric coordinate', {ri}, lines[:i] + ['   abc.defg' + lines[i][11:]] + lines[i + 1:]))
                out.append(('bad charge code', {ri}, lines[:i] + [lines[i][:36] + ' 9' + lines[i][38:]] + lines[i + 1:]))
                out.append(('unknown element', {ri}, lines[:i] + [lines[i][:31] + 'Xx ' + lines[i][34:]] + lines[i + 1:]))
            if lines[i].startswith('M  END'):
                out.append(('missing M  END', {ri}, lines[:i] + lines[i + 1:]))
    return out


def run_corruption(shard):
    from chython import smiles
    acc = Acc()
    mols = [smiles(s) for s in ('CCO', 'c1ccccc1', 'CC(=O)[O-]', 'C[N+](C)(C)C')]
    for i, m in enumerate(mols):
        m.name = 'rec%d' % i
        m.meta['id'] = str(i)
    for fmt in ('SDF', 'ESDF'):
        text = write_records(fmt, mols)
        lines = text.splitlines(keepends=True)
        spans = []
        s = 0
        for i, l in enumerate(lines):
            if l.startswith('$$$$'):
                spans.append((s, i + 1))
                s = i + 1
        base = read_records(fmt, text)
        if [b.name for b in base] != ['rec0', 'rec1', 'rec2', 'rec3']:
            acc.fail('uncorrupted multi-record file is not read completely :: %s' % fmt, got=[b.name for b in base])
            continue
        for kind, touched, new in corruptions(lines, spans):
            acc.states += 1
            acc.transitions += 1
            case = '%s | %s | records %s' % (fmt, kind, sorted(touched))
            try:
                got = read_records(fmt, ''.join(new))
            except Exception as e:
                acc.fail('reading a damaged file raised %s out of the iteration :: %s %s' % (type(e).__name__, fmt, kind), case=case)
                continue
            names = [g.name for g in got]
            must = ['rec%d' % i for i in range(4) if i not in touched]
            # the untouched records must all be there, in order
            it = iter(names)
            if not all(any(x == y for y in it) for x in must):
                acc.fail('a damaged record makes following records disappear :: %s %s' % (fmt, kind), case=case, got=names, expected_at_least=must)
                continue
            for g in got:
                idx = int(g.name[3:]) if g.name.startswith('rec') and g.name[3:].isdigit() else None
                if idx is not None and idx not in touched and str(g) != str(mols[idx]):
                    acc.fail('an undamaged record is read differently next to a damaged one :: %s %s' % (fmt, kind), case=case)
                    break
            acc.outcomes[(fmt, kind, len(got))] += 1
    acc.sample({'corruptions': ['delete line i (every line)', 'non-numeric counts', 'non-numeric coordinate', 'bad charge code', 'unknown element', 'missing M  END', 'missing $$$$'], 'records': 4})
    return acc


def run_index(shard):
    """random access by record index == sequential reading (files on disk, temp dir removed afterwards)"""
    from chython import smiles, files
    acc = Acc()
    d = tempfile.mkdtemp(prefix='vf_c11_')
    try:
        mols = [smiles(s) for s in M.corpus(stride=400)][:10]
        for i, m in enumerate(mols):
            m.name = 'r%d' % i
        for fmt, wcls, rcls, ext in (('SDF', files.SDFWrite, files.SDFRead, 'sdf'), ('ESDF', files.ESDFWrite, files.SDFRead, 'sdf'), ('RDF', files.RDFWrite, files.RDFRead, 'rdf')):
            p = os.path.join(d, 'f_%s.%s' % (fmt, ext))
            with wcls(p) as w:
                for m in mols:
                    w.write(m)
            seq = [str(x) for x in rcls(p)]
            try:
                r = rcls(p, indexable=True)
                r.reset_index()
            except Exception as e:
                acc.fail('indexable reader raised %s :: %s' % (type(e).__name__, fmt))
                continue
            for i in list(range(len(mols))) + [-1, -len(mols)]:
                acc.states += 1
                acc.transitions += 1
                try:
                    if str(r[i]) != seq[i]:
                        acc.fail('record [%d] differs from sequential reading :: %s' % (i, fmt), index=i)
                except Exception as e:
                    acc.fail('record index access raised %s :: %s' % (type(e).__name__, fmt), index=i)
            for sl in (slice(0, 3), slice(2, 8, 2), slice(5, None), slice(None, None, 3)):
                acc.states += 1
                acc.transitions += 1
                try:
                    if [str(x) for x in r[sl]] != seq[sl]:
                        acc.fail('slice differs from sequential reading :: %s' % fmt, slice=str(sl))
                except Exception as e:
                    acc.fail('slice access raised %s :: %s' % (type(e).__name__, fmt), slice=str(sl))
            try:
                cp = r._cache_path
                r.close()
                if os.path.exists(cp):
                    os.remove(cp)
            except Exception:
                pass
            acc.outcomes[fmt] += 1
    finally:
        shutil.rmtree(d, ignore_errors=True)
    acc.sample({'indexable files': ['SDF', 'ESDF', 'RDF'], 'records': 10, 'indices': 'every index, negatives, four slices'})
    return acc


def run_foreign(shard):
    """records written by another program (RDKit) and the repository's own test files are read, not crashed on"""
    from chython import smiles, files
    from rdkit import Chem, RDLogger
    from rdkit.Chem import AllChem
    from ..boot import REPO
    from ..oracle import rdk
    RDLogger.DisableLog('rdApp.*')
    k, nsh, tier = shard
    acc = Acc()
    rows = M.corpus(stride=16 if tier == 'quick' else 2) + inputs.ring_stereo_family()[::4]
    for i, s in enumerate(rows):
        if i % nsh != k:
            continue
        rd = Chem.MolFromSmiles(s)
        if rd is None or rdk.noncarbon_stereo(rd):
            continue
        AllChem.Compute2DCoords(rd)
        for v3 in (False, True):
            acc.states += 1
            acc.transitions += 1
            block = Chem.MolToMolBlock(rd, forceV3000=v3) + '$$$$\n'
            case = '%s | RDKit %s' % (s, 'V3000' if v3 else 'V2000')
            try:
                got = list(files.SDFRead(io.StringIO(block), calc_cis_trans=True))
            except Exception as e:
                acc.fail('reading an RDKit-written record raised %s' % type(e).__name__, case=case)
                continue
            if len(got) != 1:
                acc.fail('an RDKit-written record is skipped', case=case)
                continue
            try:
                g = got[0]
                g.kekule()
                g.thiele()
                ref = smiles(s)
                ref.kekule()
                ref.thiele()
                if str(g) != str(ref):
                    rb = Chem.MolFromSmiles(str(g))
                    if rb is None or not rdk.same(rb, rd):
                        # a double bond left unspecified in the source text gets a definite geometry in any 2D layout:
                        # a label derived from it is not a reading error
                        def nobond(mol):
                            mol = Chem.Mol(mol)
                            for bd in mol.GetBonds():
                                bd.SetStereo(Chem.BondStereo.STEREONONE)
                            return Chem.MolFromSmiles(Chem.MolToSmiles(mol).replace('/', '').replace('\\', ''))
                        if rb is not None and s.count('=') > (s.count('/') + s.count('\\')) // 2 and rdk.same(nobond(rb), nobond(rd)):
                            acc.ood['layout-implied cis/trans on a double bond the source leaves unspecified'] += 1
                        else:
                            acc.fail('an RDKit-written record is read as a different molecule', case=case, got=str(g), expected=str(ref))
                    else:
                        acc.ood['canonical strings differ, RDKit proves identity (C01 exclusion i)'] += 1
            except Exception as e:
                acc.ood['comparison not possible: %s' % type(e).__name__] += 1
            acc.outcomes['rdkit v3000' if v3 else 'rdkit v2000'] += 1
    if k == 0:
        tdir = os.path.join(REPO, 'test')
        for fn in sorted(os.listdir(tdir)) if os.path.isdir(tdir) else []:
            p = os.path.join(tdir, fn)
            ext = fn.rsplit('.', 1)[-1].lower()
            if ext not in ('sdf', 'rdf', 'mrv'):
                continue
            acc.states += 1
            acc.transitions += 1
            try:
                if ext == 'sdf':
                    n = sum(1 for _ in files.SDFRead(p))
                    delim = sum(1 for l in open(p, errors='replace') if l.startswith('$$$$'))
                elif ext == 'rdf':
                    n = sum(1 for _ in files.RDFRead(p))
                    delim = sum(1 for l in open(p, errors='replace') if l.startswith(('$RFMT', '$MFMT')))
                else:
                    n = sum(1 for _ in files.MRVRead(p))
                    delim = n
                acc.info['test/%s records read' % fn] = n
                acc.info['test/%s delimiters' % fn] = delim
                if n > delim:
                    acc.fail('more records than delimiters :: test/%s' % fn)
            except Exception as e:
                acc.fail('reading a repository test file raised %s :: test/%s' % (type(e).__name__, fn))
    return acc


def run_mixed_files(shard):
    """files whose records differ in size and in having metadata: every ordered selection of 3 of 6 records (small/large x no / short / long metadata, molecules and reactions)
    written to one file; sequential reading returns every record with exactly its own metadata; indexed reading equals sequential"""
    from chython import smiles, files
    acc = Acc()
    d = tempfile.mkdtemp(prefix='vf_c11m_')
    try:
        base = [('small-nometa', 'CO', {}), ('large-nometa', 'CC(C)Cc1ccc(cc1)C(C)C(=O)O', {}), ('small-meta', 'CN', {'k': 'v'}), ('large-meta', 'OC(=O)c1ccccc1OC(C)=O', {'a': '1', 'bb': 'two words'}),
                ('small-longmeta', 'CC', {'x%d' % i: 'value %d' % i for i in range(8)}), ('large-longmeta', 'CCCCCCCCCCCCCCCCCC(=O)O', {'long': 'l1\nl2\nl3'})]
        recs = {}
        for name, s, meta in base:
            m = smiles(s)
            m.meta.update(meta)
            m.name = name
            recs[name] = m
        from chython import ReactionContainer
        rx = ReactionContainer([smiles('CCO')], [smiles('CC=O')])
        rx.name = 'rxn-nometa'
        rx2 = ReactionContainer([smiles('CCBr'), smiles('O')], [smiles('CCO'), smiles('Br')], meta={'yield': '90'})
        rx2.name = 'rxn-meta'
        for fmt, wcls, rcls, ext, extra in (('SDF', files.SDFWrite, files.SDFRead, 'sdf', []), ('ESDF', files.ESDFWrite, files.SDFRead, 'sdf', []),
                                            ('RDF', files.RDFWrite, files.RDFRead, 'rdf', [rx, rx2]), ('ERDF', files.ERDFWrite, files.RDFRead, 'rdf', [rx, rx2])):
            pool = list(recs.values()) + extra
            for combo in itertools.permutations(range(len(pool)), 3):
                acc.states += 1
                acc.transitions += 2
                seq_in = [pool[i] for i in combo]
                tag = '%s | %s' % (fmt, ' , '.join(x.name for x in seq_in))
                p = os.path.join(d, 'm.%s' % ext)
                try:
                    with wcls(p) as w:
                        for x in seq_in:
                            w.write(x)
                    got = list(rcls(p))
                except Exception as e:
                    acc.fail('mixed file raised %s :: %s' % (type(e).__name__, fmt), case=tag)
                    continue
                if len(got) != 3:
                    acc.fail('record lost in a mixed file :: %s' % fmt, case=tag, got=len(got))
                    continue
                ok = True
                for a, b in zip(seq_in, got):
                    if type(a).__name__ != type(b).__name__ or str(a) != str(b):
                        acc.fail('record of a mixed file read as a different structure :: %s' % fmt, case=tag, got=str(b), expected=str(a))
                        ok = False
                        break
                    ma = {k: norm_meta(v) for k, v in a.meta.items()}
                    mb = {k: norm_meta(v) for k, v in b.meta.items() if not k.startswith('chython_') or k == 'chython_unparsed_metadata'}
                    if ma != mb:
                        acc.fail('metadata of a record in a mixed file differs (own metadata lost or foreign lines attached) :: %s' % fmt, case=tag, got=mb, expected=ma)
                        ok = False
                        break
                if not ok:
                    continue
                if combo[0] < combo[1]:   # indexed access on a subset (index building is the slow part)
                    try:
                        r = rcls(p, indexable=True)
                        r.reset_index()
                        for i in (2, 0, 1, -1):
                            x = r[i]
                            j = i % 3
                            if str(x) != str(got[j]) or {k: norm_meta(v) for k, v in x.meta.items()} != {k: norm_meta(v) for k, v in got[j].meta.items()}:
                                acc.fail('indexed record differs from sequential reading in a mixed file :: %s' % fmt, case=tag, index=i)
                                break
                        cp = r._cache_path
                        r.close()
                        if os.path.exists(cp):
                            os.remove(cp)
                    except Exception as e:
                        acc.fail('indexed access raised %s in a mixed file :: %s' % (type(e).__name__, fmt), case=tag)
                acc.outcomes[fmt] += 1
            # two writer sessions on one path, the second one appending: the file reads as the concatenation of both sessions
            import pathlib
            for (i, j), target in itertools.product(itertools.product(range(len(pool)), repeat=2), ('str path', 'pathlib.Path')):
                acc.states += 1
                acc.transitions += 1
                tag = '%s | %s then append %s | %s' % (fmt, pool[i].name, pool[j].name, target)
                p = os.path.join(d, 'a.%s' % ext)
                if os.path.exists(p):
                    os.remove(p)
                pp = p if target == 'str path' else pathlib.Path(p)
                try:
                    with wcls(pp) as w:
                        w.write(pool[i])
                    with wcls(pp, append=True) as w:
                        w.write(pool[j])
                    got = list(rcls(pp))
                except Exception as e:
                    acc.fail('appending to a file raised %s :: %s' % (type(e).__name__, fmt), case=tag)
                    continue
                exp = [pool[i], pool[j]]
                if len(got) != 2 or any(str(a_) != str(b_) or {k_: norm_meta(v_) for k_, v_ in a_.meta.items()} != {k_: norm_meta(v_) for k_, v_ in b_.meta.items() if not k_.startswith('chython_') or k_ == 'chython_unparsed_metadata'}
                                        for a_, b_ in zip(exp, got)):
                    acc.fail('a file written in two sessions (append=True) does not read as both records with their own metadata :: %s' % fmt, case=tag, got=len(got))
                acc.outcomes[fmt + ' append'] += 1
    finally:
        shutil.rmtree(d, ignore_errors=True)
    acc.sample({'records': [b[0] for b in base] + ['rxn-nometa', 'rxn-meta'], 'files': 'every ordered selection of 3'})
    return acc


def run_wrapped_v3000(shard):
    """V3000 continuation lines (a line ending in '-' continues on the next 'M  V30 ' line), as other programs write long lines: every atom, bond and counts line of
    three records wrapped at every column must be read as the unwrapped record (atom and bond lines)"""
    from chython import smiles, files
    acc = Acc()
    mols = []
    for s in ('[13CH3][N+](C)(C)CC([O-])=O', 'C[C@H](N)C(=O)O', 'Clc1ccc(Br)cc1'):
        m = smiles(s)
        if '@' in s:
            layout(m)
        m.name = 'w'
        mols.append(m)
    for m in mols:
        text = write_records('ESDF', [m])
        ref = read_records('ESDF', text)
        if len(ref) != 1:
            acc.fail('own V3000 record not readable', case=str(m))
            continue
        lines = text.split('\n')
        for li, line in enumerate(lines):
            if not line.startswith('M  V30 ') or 'BEGIN' in line or 'END' in line:
                continue
            if 'COUNTS' in line:
                acc.ood['counts line (always short; no program wraps it)'] += 1
                continue
            body = line[7:]
            for col in range(1, len(body)):
                acc.states += 1
                acc.transitions += 1
                wrapped = lines[:li] + ['M  V30 ' + body[:col] + '-', 'M  V30 ' + body[col:]] + lines[li + 1:]
                tag = 'line %r wrapped at column %d' % (line, col)
                try:
                    got = read_records('ESDF', '\n'.join(wrapped))
                except Exception as e:
                    acc.fail('wrapped V3000 line raised %s' % type(e).__name__, case=tag)
                    continue
                if len(got) != 1:
                    acc.fail('record with a wrapped V3000 line is skipped', case=tag, where='before a blank' if body[col] == ' ' else ('after a blank' if body[col - 1] == ' ' else 'inside a field'))
                    continue
                if str(got[0]) != str(ref[0]) or atom_rec(got[0]) != atom_rec(ref[0]):
                    acc.fail('record with a wrapped V3000 line is read differently', case=tag, got=str(got[0]), expected=str(ref[0]))
                acc.outcomes['wrapped'] += 1
    acc.sample({'records': [str(m) for m in mols], 'wraps': 'every column of every atom / bond / counts line'})
    return acc


def plan(tier, seed):
    return [Stage('molecule round trips', run_roundtrip, [(k, 32, tier) for k in range(32)], 'D(<=4,1) Kekule + charge -4..4 + element x isotope + radicals/orders/numbers + stereo molecules with 2D layout x {SDF, ESDF, RDF, ERDF, MRV} x mapping on/off'),
            Stage('reaction round trips', run_reactions, [0], 'role counts {0,1,2}^3 x {RDF, ERDF, MRV}'),
            Stage('titles and metadata', run_metadata, [0], 'all strings of length <=3 over 8 characters as value / key / title x 4 formats'),
            Stage('damaged records', run_corruption, [0], '4-record SDF and V3000-SDF files x every corruption kind at every position'),
            Stage('random access', run_index, [0], 'indexable SDF / V3000-SDF / RDF files on disk: every index, negative indices, slices vs sequential'),
            Stage('records of other programs', run_foreign, [(k, 16, tier) for k in range(16)], 'RDKit-written V2000 and V3000 blocks of the corpus stride and stereo family; every file under /repo/test'),
            Stage('mixed files', run_mixed_files, [0], 'every ordered selection of 3 of 6-8 records (small/large x no/short/long metadata, molecules and reactions) per file x {SDF, ESDF, RDF, ERDF}: own metadata only, indexed = sequential'),
            Stage('wrapped V3000 lines', run_wrapped_v3000, [0], 'every atom and bond line of 3 records wrapped with the V3000 continuation mark at every column')]


def replay(rec):
    key = rec['key']
    if 'mixed file' in key or 'two sessions' in key or 'appending to a file' in key:
        accs = [run_mixed_files(0)]
    elif 'wrapped V3000' in key:
        accs = [run_wrapped_v3000(0)]
    elif 'metadata' in key or 'title' in key and 'special' in key:
        accs = [run_metadata(0), run_roundtrip((0, 1, 'quick'))]
    elif 'damaged' in key or 'undamaged' in key or 'uncorrupted' in key:
        accs = [run_corruption(0)]
    elif 'index' in key or 'slice' in key or 'sequential' in key:
        accs = [run_index(0)]
    elif 'reaction' in key:
        accs = [run_reactions(0)]
    elif 'RDKit' in key or 'repository test' in key or 'delimiters' in key:
        accs = [run_foreign((k, 16, 'quick')) for k in range(16)]
    else:
        accs = [run_roundtrip((k, 8, 'quick')) for k in range(8)] + [run_metadata(0)]
    return [f for a in accs for f in a.fails if f['key'] == key]
