"""C08 -- SMARTS primitives and query atoms match exactly what is documented (attributes recomputed from raw atoms/bonds)."""
import itertools

from ..core import Acc, Stage
from ..oracle import cycles, valence
from ..scope import molecules as M, inputs

META = {
    'technique': 'bounded exhaustive enumeration of SMARTS primitives and primitive pairs x atom/bond environments on the real query classes and matcher, vs attributes recomputed from raw atoms and bond orders',
    'rule': 'one state per (query atom|bond, environment); environments = every atom/bond of the molecule scope; queries = element spec x (every primitive and every pair of primitives)',
    'assumptions': ['neighbour count = non-coordinate bonds incl. explicit H; heteroatoms = neighbours other than C and H; hybridisation from bond orders as documented; ring sizes from an independent minimum cycle basis (only where it is unique)',
                    'implicit hydrogens from the element-table re-derivation (C04 oracle) on Kekule molecules',
                    'any-metal = element outside the non-metal list documented in isomorphism.py'],
}

NONMETAL = {1, 2, 5, 6, 7, 8, 9, 10, 14, 15, 16, 17, 18, 32, 33, 34, 35, 36, 51, 52, 53, 54, 85, 86, 118}
ELSPEC = [('C', {6}), ('N', {7}), ('O', {8}), ('Cl', {17}), ('#6', {6}), ('#26', {26}), ('C,N', {6, 7}), ('N,O,S', {7, 8, 16}), ('A', None), ('M', 'metal')]
PRIMS = ([('D%d' % k, ('D', {k})) for k in range(5)] + [('h%d' % k, ('h', {k})) for k in range(4)] +
         [('r3', ('r', {3})), ('r5', ('r', {5})), ('r6', ('r', {6})), ('r5,r6', ('r', {5, 6})), ('!R', ('R', None)), ('a', ('z', {4}))] +
         [('x%d' % k, ('x', {k})) for k in range(4)] + [('z%d' % k, ('z', {k})) for k in range(1, 5)] + [('z1,z2', ('z', {1, 2})), ('D1,D2', ('D', {1, 2})), ('h1,h2', ('h', {1, 2}))])
CHARGES = [('', None), ('+', 1), ('-', -1)]
BONDS = [('-', {1}, None), ('=', {2}, None), ('#', {3}, None), (':', {4}, None), ('~', {8}, None), ('-,=', {1, 2}, None), ('=,:', {2, 4}, None), ('-,:', {1, 4}, None),
         ('!-', {2, 3, 4}, None), ('!=', {1, 3, 4}, None), ('!#', {1, 2, 4}, None), ('!:', {1, 2, 3}, None),
         ('-;@', {1}, True), ('-;!@', {1}, False), ('=;@', {2}, True), ('=;!@', {2}, False), (':;@', {4}, True), ('-,=;@', {1, 2}, True), ('-,=;!@', {1, 2}, False),
         ('!-;@', {2, 3, 4}, True), ('!:;!@', {1, 2, 3}, False)]


def environments(m, s2z):
    """independent attributes of every atom and bond of molecule m"""
    adj_all = {n: dict(m._bonds[n]) for n in m}
    adj = {n: {k for k, b in ms.items() if b.order != 8} for n, ms in adj_all.items()}
    br = cycles.bridges(adj)
    mu = cycles.cyclomatic(adj)
    unique = True
    ring_sizes = {n: set() for n in m}
    if mu:
        rel, _ = cycles.relevant_count(adj)
        unique = rel == mu
        if unique:
            cand, edges, eid = cycles.candidate_cycles(adj)
            basis = cycles.Basis()
            chosen = []
            for sz, mask in sorted(cand):
                if basis.add(mask):
                    chosen.append((sz, mask))
                    if len(chosen) == mu:
                        break
            for sz, mask in chosen:
                for (a, b), i in eid.items():
                    if mask >> i & 1:
                        ring_sizes[a].add(sz)
                        ring_sizes[b].add(sz)
    in_ring = {x for e in cycles.edges_of(adj) if e not in br for x in e}
    atoms = {}
    for n, a in m.atoms():
        nb = [(b.order, m.atom(k).atomic_number) for k, b in adj_all[n].items() if b.order != 8]
        orders = [o for o, _ in nb]
        if 4 in orders:
            hyb = 4
        elif 3 in orders or orders.count(2) >= 2:
            hyb = 3
        elif 2 in orders:
            hyb = 2
        else:
            hyb = 1
        h = valence.rederive(a, a.charge, a.is_radical, nb, s2z) if 4 not in orders else a.implicit_hydrogens
        atoms[n] = {'z': a.atomic_number, 'iso': a.isotope, 'charge': a.charge, 'rad': a.is_radical, 'D': len(nb), 'x': sum(1 for _, z in nb if z not in (1, 6)),
                    'z_': hyb, 'h': h, 'r': ring_sizes[n] if unique else None, 'R': n in in_ring}
    bonds = {}
    for n, k, b in m.bonds():
        e = (n, k) if n < k else (k, n)
        bonds[e] = {'order': b.order, 'ring': (e not in br) if b.order != 8 else None}
    return atoms, bonds


def atom_ok(elspec, prims, charge, env, iso=None):
    zs = elspec
    if zs == 'metal':
        if env['z'] in NONMETAL:
            return False
        # any-metal ignores charge, radical, hydrogens, heteroatoms and rings (documented)
        for kind, vals in prims:
            if kind == 'D' and env['D'] not in vals:
                return False
            if kind == 'z' and env['z_'] not in vals:
                return False
        return True
    if zs is not None and env['z'] not in zs:
        return False
    if env['charge'] != (charge or 0):
        return False
    if env['rad']:
        return False
    if iso is not None and env['iso'] != iso:
        return False
    for kind, vals in prims:
        if kind == 'D' and env['D'] not in vals:
            return False
        if kind == 'h' and env['h'] not in vals:
            return False
        if kind == 'x' and env['x'] not in vals:
            return False
        if kind == 'z' and env['z_'] not in vals:
            return False
        if kind == 'R' and env['R']:
            return False
        if kind == 'r':
            if env['r'] is None:
                return None   # ring sizes ambiguous (non-unique basis): not judged
            if not (env['r'] & vals):
                return False
    return True


def mol_set(tier):
    from chython import smiles
    mols = []
    for i, spec in enumerate(M.scope(5, 1)):
        if i % (3 if tier == 'quick' else 1) == 0:
            mols.append((spec['tag'], M.to_chython(spec)))
    extra = ['C1CC1', 'C1CCC1', 'C1CCCC1', 'C1CCCCC1', 'C1CCCCCC1', 'C1CC2CCC1C2', 'C1CCC2CCCCC2C1', 'c1ccccc1', 'c1ccncc1', 'c1cc[nH]c1', 'c1ccc2ccccc2c1', 'c1ccccc1-c1ccccc1',
             'C1CC1C1CC1', 'C1CCCCC1C1CCCCC1', '[NH4+]', 'C[N+](C)(C)C', 'CC(=O)[O-]', '[Na+].[Cl-]', 'C#N', 'C=C=C', 'CC#CC', 'N#CC=O', '[13CH4]', 'C[2H]', '[Fe]', 'Cl[Pt](Cl)(N)N',
             'O=S(=O)(O)O', 'OP(O)(O)=O', 'FC(F)(F)C(Cl)(Cl)Br', 'C1=CC=CC=C1', 'O=C1C=CC(=O)C=C1', 'C1CC11CC1', 'CN1C=NC2=C1C(=O)N(C)C(=O)N2C', 'C[Si](C)(C)C', 'B(O)(O)C', 'C~[Fe]',
             'C1CC1~[Cu]', '[CH3]', 'C[O]', 'CC(C)(C)C', 'OC(O)(O)O', 'C1CCC2(CC1)CCCC2']
    extra += inputs.organometallics()[::5]
    extra += M.corpus(stride=40 if tier == 'quick' else 8)
    for s in extra:
        try:
            m = smiles(s)
            if any(a.implicit_hydrogens is None for _, a in m.atoms()):
                m.kekule()
                m.thiele()
            if s in ('[CH3]', 'C[O]'):
                pass
            mols.append((s, m))
        except Exception:
            continue
    return mols


def run_atoms(shard):
    from chython import smarts
    from chython.periodictable import Element
    k, nsh, tier = shard
    acc = Acc()
    s2z = {c.__name__: c.atomic_number.fget(None) for c in Element.__subclasses__()}
    mols = mol_set(tier)
    envs = []
    for tag, m in mols:
        try:
            a, b = environments(m, s2z)
        except Exception:
            continue
        envs.append((tag, m, a))
    # query list
    queries = []
    for (etxt, zs) in ELSPEC:
        for ctxt, ch in CHARGES:
            if ctxt and etxt in ('A', 'M', '#6', '#26', 'C,N', 'N,O,S'):
                continue
            combos = [()] + [(p,) for p in PRIMS] + list(itertools.combinations(PRIMS, 2))
            for combo in combos:
                if len(combo) == 2 and combo[0][1][0].lower() == combo[1][1][0].lower():
                    continue   # two primitives of one kind cannot be combined with ';'
                if ctxt and len(combo) == 2:
                    continue
                txt = '[' + etxt + ctxt + ''.join(';' + p[0] for p in combo) + ']'
                queries.append((txt, zs, ch, [p[1] for p in combo], None))
    queries += [('[13C]', {6}, None, [], 13), ('[2H]', {1}, None, [], 2), ('[13C;h3]', {6}, None, [('h', {3})], 13), ('[12C]', {6}, None, [], 12)]
    for qi, (txt, zs, ch, prims, iso) in enumerate(queries):
        if qi % nsh != k:
            continue
        try:
            q = smarts(txt)
        except ValueError as e:
            if zs == 'metal' and any(kd in ('h', 'x', 'r', 'R') for kd, _ in prims):
                acc.outcomes['any-metal with inapplicable primitive rejected'] += 1   # outside the documented subset
                continue
            acc.fail('documented SMARTS rejected: %s' % type(e).__name__, smarts=txt)
            continue
        except Exception as e:
            acc.fail('SMARTS raises an unrelated exception %s :: %s' % (type(e).__name__, _prim_class(txt)), smarts=txt)
            continue
        qa = q.atom(next(iter(q)))
        acc.states += 1
        for tag, m, aenv in envs:
            exp = set()
            skip = False
            for n, env in aenv.items():
                r = atom_ok(zs, prims, ch, env, iso)
                if r is None:
                    skip = True
                    break
                if r:
                    exp.add(n)
            if skip:
                acc.ood['ring sizes ambiguous (minimum cycle basis not unique)'] += 1
                continue
            acc.transitions += 1
            got_eq = {n for n, a in m.atoms() if qa == a}
            if got_eq != exp:
                d = sorted(got_eq ^ exp)[0]
                acc.fail('query atom == molecule atom differs from the attribute oracle :: %s' % _prim_class(txt), smarts=txt, mol=tag, atom=d,
                         env={kk: (sorted(v) if isinstance(v, set) else v) for kk, v in aenv[d].items()}, chython=d in got_eq)
                acc.outcomes['FAIL'] += 1
                continue
            if (qi + len(tag)) % 7 == 0:
                acc.transitions += 1
                got = {mp[next(iter(q))] for mp in q.get_mapping(m, automorphism_filter=False, _cython=False)}
                if got != exp:
                    acc.fail('one-atom SMARTS search differs from the attribute oracle :: %s' % _prim_class(txt), smarts=txt, mol=tag)
            acc.outcomes[len(exp) > 0] += 1
    acc.sample({'queries': [q[0] for q in queries[k::max(1, len(queries) // 5)][:5]], 'molecules': len(envs)})
    return acc


def _prim_class(txt):
    import re
    return re.sub(r'\d+', 'N', txt)


def run_bonds(shard):
    from chython import smarts
    from chython.periodictable import Element
    k, nsh, tier = shard
    acc = Acc()
    s2z = {c.__name__: c.atomic_number.fget(None) for c in Element.__subclasses__()}
    mols = mol_set(tier)
    for bi, (btxt, orders, ring) in enumerate(BONDS):
        if bi % nsh != k:
            continue
        txt = '[A]%s[A]' % btxt
        try:
            q = smarts(txt)
        except Exception as e:
            acc.fail('documented SMARTS rejected: %s' % type(e).__name__, smarts=txt)
            continue
        acc.states += 1
        qn = list(q)
        qb = q.bond(qn[0], qn[1])
        for tag, m in mols:
            acc.transitions += 2
            try:
                aenv, benv = environments(m, s2z)
            except Exception:
                continue
            plain = {n for n, a in aenv.items() if a['charge'] == 0 and not a['rad']}   # [A] itself means neutral, non-radical
            exp = {e for e, env in benv.items() if env['order'] in orders and (ring is None or env['ring'] == ring)}
            exp_s = {e for e in exp if e[0] in plain and e[1] in plain}
            got_eq = {((n, kk) if n < kk else (kk, n)) for n, kk, b in m.bonds() if qb == b}
            if got_eq != exp:
                d = sorted(got_eq ^ exp)[0]
                acc.fail('query bond == molecule bond differs from the bond oracle :: %s' % btxt, smarts=txt, mol=tag, bond=list(d), env=benv[d], chython=d in got_eq)
                continue
            got = {tuple(sorted((mp[qn[0]], mp[qn[1]]))) for mp in q.get_mapping(m, automorphism_filter=False, _cython=False)}
            if got != exp_s:
                acc.fail('two-atom SMARTS search differs from the bond oracle :: %s' % btxt, smarts=txt, mol=tag)
            acc.outcomes[(btxt, len(exp) > 0)] += 1
    acc.sample({'bond primitives': [b[0] for b in BONDS]})
    return acc


UNSUPPORTED = ['[C&D2]', '[$(CC)]', '[C;R2]', '[C;X3]', '[C;v4]', '[C;!D2]', '[!C]', '*', '[*]', '[C;D]', '[C;h]', '[C;r]', '[C;D2,h1]', '[C;q1]', '[;D2]', '[]', '[C;D2;]', 'C!C', 'C;C', 'C,C',
               'C-,C', 'C-;C', 'C!@C', 'C;!!@C', '[C', 'C]', 'C(', 'C)', 'C1', 'C%1', 'C-', '-C', 'C--C', 'C(C', '[C;D99]', '[C;z9]', '[C;z0]', '[Xx]', '[#0]', '[#119]', '[C;h-1]']
SUPPORTED_OK = ['[C;D2]', '[C;h1,h2]', '[C;r5,r6;a]-;!@[C;h1,h2;z2,z4]', '[N+]', '[13C]', '[C,N]', '[A]', '[M]', 'C-,=C', 'C!-C', 'C-;@C', 'C~C', 'C.C', 'C1CC1', '[C;!R]', '[C:7]', '[C;M]', '[C;x2;z1]', '[O-]',
                '[C;D2;]']


def run_syntax(shard):
    from chython import smarts
    acc = Acc()
    for s in UNSUPPORTED:
        acc.states += 1
        acc.transitions += 1
        try:
            q = smarts(s)
        except ValueError:
            acc.outcomes['rejected'] += 1
            continue
        except Exception as e:
            acc.fail('unsupported SMARTS raises %s instead of the invalid-SMARTS error :: %s' % (type(e).__name__, s), smarts=s)
            continue
        if s in SUPPORTED_OK:
            continue
        acc.fail('unsupported SMARTS accepted :: %s' % s, smarts=s, atoms=len(q))
    # all strings of <=3 tokens over a small SMARTS alphabet: must parse or raise a ValueError, never anything else
    alpha = ['C', '[C;D2]', '[N,O]', '[A]', '-', '=', '~', '!', ',', ';', '@', '(', ')', '1', '.', '[C&D1]', '[$(C)]', '*', ':']
    for L in (1, 2, 3):
        for combo in itertools.product(alpha, repeat=L):
            s = ''.join(combo)
            acc.states += 1
            acc.transitions += 1
            try:
                smarts(s)
                acc.outcomes['parsed'] += 1
            except ValueError:
                acc.outcomes['rejected'] += 1
            except Exception as e:
                acc.fail('SMARTS string raises an unrelated exception %s' % type(e).__name__, smarts=s)
    acc.sample({'unsupported': UNSUPPORTED[:8], 'token strings': 'all of length <=3 over %d tokens' % len(alpha)})
    return acc


def plan(tier, seed):
    return [Stage('atom primitives and pairs', run_atoms, [(k, 64, tier) for k in range(64)], '10 element specs x (27 primitives + all pairs) (+charges, isotopes) x every atom of the molecule scope'),
            Stage('bond primitives', run_bonds, [(k, 21, tier) for k in range(21)], '%d bond primitives (orders, lists, negations, ring/non-ring) x every bond of the molecule scope' % len(BONDS)),
            Stage('unsupported / malformed SMARTS', run_syntax, [0], 'unsupported constructs and all token strings of length <=3: ValueError family or a query')]


def replay(rec):
    from chython import smarts, smiles
    from chython.periodictable import Element
    key = rec['key']
    if 'unsupported' in key or 'unrelated exception' in key:
        a = run_syntax(0)
        return [f for f in a.fails if f['key'] == key]
    if 'bond' in key:
        accs = [run_bonds((k, 21, 'quick')) for k in range(21)]
        return [f for a in accs for f in a.fails if f['key'] == key]
    # atom primitive: re-evaluate the recorded query on the recorded molecule
    s2z = {c.__name__: c.atomic_number.fget(None) for c in Element.__subclasses__()}
    txt, tag = rec['smarts'], rec['mol']
    mols = dict(mol_set('thorough'))
    m = mols.get(tag)
    if m is None:
        return []
    aenv, _ = environments(m, s2z)
    q = smarts(txt)
    qa = q.atom(next(iter(q)))
    n = rec.get('atom')
    if n is None:
        return [{'key': key}]
    return [{'key': key}] if (qa == m.atom(n)) == rec.get('chython') else []
