"""C08 -- SMARTS primitives and query atoms match exactly what is documented (attributes recomputed from raw atoms/bonds)."""
import itertools

from ..core import Acc, Stage
from ..oracle import cycles, valence
from ..scope import molecules as M, inputs

META = {
    'technique': 'bounded exhaustive enumeration of SMARTS primitives and primitive pairs x atom/bond environments on the real query classes and matcher, vs attributes recomputed from raw atoms and bond orders',
    'rule': 'one state per (query atom|bond, environment); environments = every atom/bond of the molecule scope; queries = element spec x (every primitive and every pair of primitives)',
    'assumptions': ['neighbour count = non-coordinate bonds incl. explicit H; heteroatoms = neighbours other than C and H; hybridisation from bond orders as documented; ring sizes from an independent minimum cycle basis (only where it is unique)',
                    'implicit hydrogens from the element-table re-derivation (C04 oracle) on Kekule molecules',
                    'any-metal = element outside the non-metal list documented in isomorphism.py'],
}

NONMETAL = {1, 2, 5, 6, 7, 8, 9, 10, 14, 15, 16, 17, 18, 32, 33, 34, 35, 36, 51, 52, 53, 54, 85, 86, 118}
ELSPEC = [('C', {6}), ('N', {7}), ('O', {8}), ('Cl', {17}), ('#6', {6}), ('#26', {26}), ('C,N', {6, 7}), ('N,O,S', {7, 8, 16}), ('A', None), ('M', 'metal'),
          ('Cl,Br', {17, 35}), ('Si,Se', {14, 34}), ('#17,#35', {17, 35}), ('Na,Sn', {11, 50}), ('Co,Cu', {27, 29})]
PRIMS = ([('D%d' % k, ('D', {k})) for k in range(5)] + [('h%d' % k, ('h', {k})) for k in range(4)] +
         [('r3', ('r', {3})), ('r5', ('r', {5})), ('r6', ('r', {6})), ('r5,r6', ('r', {5, 6})), ('!R', ('R', None)), ('a', ('z', {4}))] +
         [('x%d' % k, ('x', {k})) for k in range(4)] + [('z%d' % k, ('z', {k})) for k in range(1, 5)] + [('z1,z2', ('z', {1, 2})), ('D1,D2', ('D', {1, 2})), ('h1,h2', ('h', {1, 2}))])
CHARGES = [('', None), ('+', 1), ('-', -1)]
BONDS = [('-', {1}, None), ('=', {2}, None), ('#', {3}, None), (':', {4}, None), ('~', {8}, None), ('-,=', {1, 2}, None), ('=,:', {2, 4}, None), ('-,:', {1, 4}, None),
         ('!-', {2, 3, 4}, None), ('!=', {1, 3, 4}, None), ('!#', {1, 2, 4}, None), ('!:', {1, 2, 3}, None),
         ('-;@', {1}, True), ('-;!@', {1}, False), ('=;@', {2}, True), ('=;!@', {2}, False), (':;@', {4}, True), ('-,=;@', {1, 2}, True), ('-,=;!@', {1, 2}, False),
         ('!-;@', {2, 3, 4}, True), ('!:;!@', {1, 2, 3}, False)]


def environments(m, s2z):
    """independent attributes of every atom and bond of molecule m"""
    adj_all = {n: dict(m._bonds[n]) for n in m}
    adj = {n: {k for k, b in ms.items() if b.order != 8} for n, ms in adj_all.items()}
    br = cycles.bridges(adj)
    mu = cycles.cyclomatic(adj)
    unique = True
    ring_sizes = {n: set() for n in m}
    if mu:
        rel, _ = cycles.relevant_count(adj)
        unique = rel == mu
        if unique:
            cand, edges, eid = cycles.candidate_cycles(adj)
            basis = cycles.Basis()
            chosen = []
            for sz, mask in sorted(cand):
                if basis.add(mask):
                    chosen.append((sz, mask))
                    if len(chosen) == mu:
                        break
            for sz, mask in chosen:
                for (a, b), i in eid.items():
                    if mask >> i & 1:
                        ring_sizes[a].add(sz)
                        ring_sizes[b].add(sz)
    in_ring = {x for e in cycles.edges_of(adj) if e not in br for x in e}
    atoms = {}
    for n, a in m.atoms():
        nb = [(b.order, m.atom(k).atomic_number) for k, b in adj_all[n].items() if b.order != 8]
        orders = [o for o, _ in nb]
        if 4 in orders:
            hyb = 4
        elif 3 in orders or orders.count(2) >= 2:
            hyb = 3
        elif 2 in orders:
            hyb = 2
        else:
            hyb = 1
        h = valence.rederive(a, a.charge, a.is_radical, nb, s2z) if 4 not in orders else a.implicit_hydrogens
        atoms[n] = {'z': a.atomic_number, 'iso': a.isotope, 'charge': a.charge, 'rad': a.is_radical, 'D': len(nb), 'x': sum(1 for _, z in nb if z not in (1, 6)),
                    'z_': hyb, 'h': h, 'r': ring_sizes[n] if unique else None, 'R': n in in_ring}
    bonds = {}
    for n, k, b in m.bonds():
        e = (n, k) if n < k else (k, n)
        bonds[e] = {'order': b.order, 'ring': (e not in br) if b.order != 8 else None}
    return atoms, bonds


def atom_ok(elspec, prims, charge, env, iso=None):
    zs = elspec
    if zs == 'metal':
        if env['z'] in NONMETAL:
            return False
        # any-metal ignores charge, radical, hydrogens, heteroatoms and rings (documented)
        for kind, vals in prims:
            if kind == 'D' and env['D'] not in vals:
                return False
            if kind == 'z' and env['z_'] not in vals:
                return False
        return True
    if zs is not None and env['z'] not in zs:
        return False
    if env['charge'] != (charge or 0):
        return False
    if env['rad']:
        return False
    if iso is not None and env['iso'] != iso:
        return False
    for kind, vals in prims:
        if kind == 'D' and env['D'] not in vals:
            return False
        if kind == 'h' and env['h'] not in vals:
            return False
        if kind == 'x' and env['x'] not in vals:
            return False
        if kind == 'z' and env['z_'] not in vals:
            return False
        if kind == 'R' and env['R']:
            return False
        if kind == 'r':
            if env['r'] is None:
                return None   # ring sizes ambiguous (non-unique basis): not judged
            if not (env['r'] & vals):
                return False
    return True


def mol_set(tier):
    from chython import smiles
    mols = []
    for i, spec in enumerate(M.scope(5, 1)):
        if i % (3 if tier == 'quick' else 1) == 0:
            mols.append((spec['tag'], M.to_chython(spec)))
    extra = ['C1CC1', 'C1CCC1', 'C1CCCC1', 'C1CCCCC1', 'C1CCCCCC1', 'C1CC2CCC1C2', 'C1CCC2CCCCC2C1', 'c1ccccc1', 'c1ccncc1', 'c1cc[nH]c1', 'c1ccc2ccccc2c1', 'c1ccccc1-c1ccccc1',
             'C1CC1C1CC1', 'C1CCCCC1C1CCCCC1', '[NH4+]', 'C[N+](C)(C)C', 'CC(=O)[O-]', '[Na+].[Cl-]', 'C#N', 'C=C=C', 'CC#CC', 'N#CC=O', '[13CH4]', 'C[2H]', '[Fe]', 'Cl[Pt](Cl)(N)N',
             'O=S(=O)(O)O', 'OP(O)(O)=O', 'FC(F)(F)C(Cl)(Cl)Br', 'C1=CC=CC=C1', 'O=C1C=CC(=O)C=C1', 'C1CC11CC1', 'CN1C=NC2=C1C(=O)N(C)C(=O)N2C', 'C[Si](C)(C)C', 'B(O)(O)C', 'C~[Fe]', 'C[Sn](C)(C)C', 'C[Se]C', 'Cl[Co]Cl', 'Br[Cu]', 'c1c[nH]ccc1=O', '[nH]1ccccc1=O', 'O=c1cc[nH]cc1', 'c12ccccc1occc2=O', 'S=c1cccc[nH]1', 'O=c1ccoc2ccccc12',
             'C1CC1~[Cu]', '[CH3]', 'C[O]', 'CC(C)(C)C', 'OC(O)(O)O', 'C1CCC2(CC1)CCCC2',
             # atoms with three / four double bonds, a triple and a double bond (either one first in the bond order)
             '[O-]Cl(=O)(=O)=O', 'O=S(=O)=O', 'O=[Os](=O)(=O)=O', 'CS(#N)=O', 'O=S(C)#N', 'N#S(C)=O', '[O-][Mn](=O)(=O)=O', 'O=[Xe](=O)(=O)=O', 'O=I(=O)(=O)O', 'FS(F)(F)(F)(F)F', 'O=P(=O)O']
    extra += inputs.organometallics()[::5]
    extra += M.corpus(stride=40 if tier == 'quick' else 8)
    for s in extra:
        try:
            m = smiles(s)
            if any(b.order == 4 for *_, b in m.bonds()):
                # aromatic text is also kept exactly as parsed (labels set by the reader), next to the re-aromatised form
                mols.append((s + ' (as parsed)', m.copy()))
                m.kekule()
                m.thiele()
            elif any(a.implicit_hydrogens is None for _, a in m.atoms()):
                m.kekule()
                m.thiele()
            if s in ('[CH3]', 'C[O]'):
                pass
            mols.append((s, m))
        except Exception:
            continue
    return mols


def run_atoms(shard):
    from chython import smarts
    from chython.periodictable import Element
    k, nsh, tier = shard
    acc = Acc()
    s2z = {c.__name__: c.atomic_number.fget(None) for c in Element.__subclasses__()}
    mols = mol_set(tier)
    envs = []
    for tag, m in mols:
        try:
            a, b = environments(m, s2z)
        except Exception:
            continue
        envs.append((tag, m, a))
    # query list
    queries = []
    for (etxt, zs) in ELSPEC:
        for ctxt, ch in CHARGES:
            if ctxt and etxt in ('A', 'M', '#6', '#26', 'C,N', 'N,O,S', 'Cl,Br', 'Si,Se', '#17,#35', 'Na,Sn', 'Co,Cu'):
                continue
            combos = [()] + [(p,) for p in PRIMS] + list(itertools.combinations(PRIMS, 2))
            for combo in combos:
                if len(combo) == 2 and combo[0][1][0].lower() == combo[1][1][0].lower():
                    continue   # two primitives of one kind cannot be combined with ';'
                if ctxt and len(combo) == 2:
                    continue
                txt = '[' + etxt + ctxt + ''.join(';' + p[0] for p in combo) + ']'
                queries.append((txt, zs, ch, [p[1] for p in combo], None))
    queries += [('[13C]', {6}, None, [], 13), ('[2H]', {1}, None, [], 2), ('[13C;h3]', {6}, None, [('h', {3})], 13), ('[12C]', {6}, None, [], 12)]
    for qi, (txt, zs, ch, prims, iso) in enumerate(queries):
        if qi % nsh != k:
            continue
        try:
            q = smarts(txt)
        except ValueError as e:
            if zs == 'metal' and any(kd in ('h', 'x', 'r', 'R') for kd, _ in prims):
                acc.outcomes['any-metal with inapplicable primitive rejected'] += 1   # outside the documented subset
                continue
            acc.fail('documented SMARTS rejected: %s' % type(e).__name__, smarts=txt)
            continue
        except Exception as e:
            acc.fail('SMARTS raises an unrelated exception %s :: %s' % (type(e).__name__, _prim_class(txt)), smarts=txt)
            continue
        qa = q.atom(next(iter(q)))
        acc.states += 1
        for tag, m, aenv in envs:
            exp = set()
            skip = False
            for n, env in aenv.items():
                r = atom_ok(zs, prims, ch, env, iso)
                if r is None:
                    skip = True
                    break
                if r:
                    exp.add(n)
            if skip:
                acc.ood['ring sizes ambiguous (minimum cycle basis not unique)'] += 1
                continue
            acc.transitions += 1
            got_eq = {n for n, a in m.atoms() if qa == a}
            if got_eq != exp:
                d = sorted(got_eq ^ exp)[0]
                acc.fail('query atom == molecule atom differs from the attribute oracle :: %s' % _prim_class(txt), smarts=txt, mol=tag, atom=d,
                         env={kk: (sorted(v) if isinstance(v, set) else v) for kk, v in aenv[d].items()}, chython=d in got_eq)
                acc.outcomes['FAIL'] += 1
                continue
            if (qi + len(tag)) % 7 == 0:
                acc.transitions += 1
                got = {mp[next(iter(q))] for mp in q.get_mapping(m, automorphism_filter=False, _cython=False)}
                if got != exp:
                    acc.fail('one-atom SMARTS search differs from the attribute oracle :: %s' % _prim_class(txt), smarts=txt, mol=tag)
            acc.outcomes[len(exp) > 0] += 1
    acc.sample({'queries': [q[0] for q in queries[k::max(1, len(queries) // 5)][:5]], 'molecules': len(envs)})
    return acc


def _prim_class(txt):
    import re
    return re.sub(r'\d+', 'N', txt)


def run_bonds(shard):
    from chython import smarts
    from chython.periodictable import Element
    k, nsh, tier = shard
    acc = Acc()
    s2z = {c.__name__: c.atomic_number.fget(None) for c in Element.__subclasses__()}
    mols = mol_set(tier)
    for bi, (btxt, orders, ring) in enumerate(BONDS):
        if bi % nsh != k:
            continue
        txt = '[A]%s[A]' % btxt
        try:
            q = smarts(txt)
        except Exception as e:
            acc.fail('documented SMARTS rejected: %s' % type(e).__name__, smarts=txt)
            continue
        acc.states += 1
        qn = list(q)
        qb = q.bond(qn[0], qn[1])
        for tag, m in mols:
            acc.transitions += 2
            try:
                aenv, benv = environments(m, s2z)
            except Exception:
                continue
            plain = {n for n, a in aenv.items() if a['charge'] == 0 and not a['rad']}   # [A] itself means neutral, non-radical
            exp = {e for e, env in benv.items() if env['order'] in orders and (ring is None or env['ring'] == ring)}
            exp_s = {e for e in exp if e[0] in plain and e[1] in plain}
            got_eq = {((n, kk) if n < kk else (kk, n)) for n, kk, b in m.bonds() if qb == b}
            if got_eq != exp:
                d = sorted(got_eq ^ exp)[0]
                acc.fail('query bond == molecule bond differs from the bond oracle :: %s' % btxt, smarts=txt, mol=tag, bond=list(d), env=benv[d], chython=d in got_eq)
                continue
            got = {tuple(sorted((mp[qn[0]], mp[qn[1]]))) for mp in q.get_mapping(m, automorphism_filter=False, _cython=False)}
            if got != exp_s:
                acc.fail('two-atom SMARTS search differs from the bond oracle :: %s' % btxt, smarts=txt, mol=tag)
            acc.outcomes[(btxt, len(exp) > 0)] += 1
    acc.sample({'bond primitives': [b[0] for b in BONDS]})
    return acc


UNSUPPORTED = ['[C&D2]', '[$(CC)]', '[C;R2]', '[C;X3]', '[C;v4]', '[C;!D2]', '[!C]', '*', '[*]', '[C;D]', '[C;h]', '[C;r]', '[C;D2,h1]', '[C;q1]', '[;D2]', '[]', '[C;D2;]', 'C!C', 'C;C', 'C,C',
               'C-,C', 'C-;C', 'C!@C', 'C;!!@C', '[C', 'C]', 'C(', 'C)', 'C1', 'C%1', 'C-', '-C', 'C--C', 'C(C', '[C;D99]', '[C;z9]', '[C;z0]', '[Xx]', '[#0]', '[#119]', '[C;h-1]']
SUPPORTED_OK = ['[C;D2]', '[C;h1,h2]', '[C;r5,r6;a]-;!@[C;h1,h2;z2,z4]', '[N+]', '[13C]', '[C,N]', '[A]', '[M]', 'C-,=C', 'C!-C', 'C-;@C', 'C~C', 'C.C', 'C1CC1', '[C;!R]', '[C:7]', '[C;M]', '[C;x2;z1]', '[O-]',
                '[C;D2;]']


def run_syntax(shard):
    from chython import smarts
    acc = Acc()
    for s in UNSUPPORTED:
        acc.states += 1
        acc.transitions += 1
        try:
            q = smarts(s)
        except ValueError:
            acc.outcomes['rejected'] += 1
            continue
        except Exception as e:
            acc.fail('unsupported SMARTS raises %s instead of the invalid-SMARTS error :: %s' % (type(e).__name__, s), smarts=s)
            continue
        if s in SUPPORTED_OK:
            continue
        acc.fail('unsupported SMARTS accepted :: %s' % s, smarts=s, atoms=len(q))
    # all strings of <=3 tokens over a small SMARTS alphabet: must parse or raise a ValueError, never anything else
    alpha = ['C', '[C;D2]', '[N,O]', '[A]', '-', '=', '~', '!', ',', ';', '@', '(', ')', '1', '.', '[C&D1]', '[$(C)]', '*', ':']
    for L in (1, 2, 3):
        for combo in itertools.product(alpha, repeat=L):
            s = ''.join(combo)
            acc.states += 1
            acc.transitions += 1
            try:
                smarts(s)
                acc.outcomes['parsed'] += 1
            except ValueError:
                acc.outcomes['rejected'] += 1
            except Exception as e:
                acc.fail('SMARTS string raises an unrelated exception %s' % type(e).__name__, smarts=s)
    acc.sample({'unsupported': UNSUPPORTED[:8], 'token strings': 'all of length <=3 over %d tokens' % len(alpha)})
    return acc


# ---------------------------------------------------------------------------------------------------------------
# stereo marks in SMARTS: @ / @@ on atoms and / \ around double bonds
# ---------------------------------------------------------------------------------------------------------------
STEREO_BASES = ['F/C=C(/Cl)C(/Br)=C/F', 'C[C@]1(F)CCCO1', 'C[C@]12CCCC[C@H]1OCC2', 'C[C@H](F)[C@@H](Cl)C', 'C[C@H](O)/C=C/Cl', 'F/C=C/Cl', 'F/C=C(/Cl)C', 'F/C(Cl)=C(/Br)I', 'F/C=C/C=C/F',
                'C/C=C/C(C)=C/C', 'C/C=C1/CCCO1', 'C1CCCC/C=C/CCCC1', 'N[C@@H](C)C(=O)O', 'C[C@H]1CC[C@@H](O)CC1', 'C[C@](F)(Cl)Br']
STEREO_BASES_QUICK = ['C[C@]1(F)CCCO1', 'C[C@]12CCCC[C@H]1OCC2', 'C[C@H](O)/C=C/Cl', 'F/C=C(/Cl)C', 'F/C(Cl)=C(/Br)I', 'C/C=C/C(C)=C/C', 'C/C=C1/CCCO1']
BOND_DECOR = [('=', True), ('=;!@', True), ('=,#', True), ('=,:', True), ('!-', True), ('=;@', False)]


def _rd():
    from rdkit import Chem, RDLogger
    RDLogger.DisableLog('rdApp.*')
    return Chem


def stereo_variants(base):
    """every labelled / partly labelled / unlabelled variant of a base molecule, as RDKit canonical SMILES"""
    Chem = _rd()
    m0 = Chem.MolFromSmiles(base)
    centres = [a.GetIdx() for a in m0.GetAtoms() if a.GetChiralTag() != Chem.ChiralType.CHI_UNSPECIFIED]
    dbonds = [b.GetIdx() for b in m0.GetBonds() if b.GetStereo() != Chem.BondStereo.STEREONONE]
    out = {}
    for ca in itertools.product((None, Chem.ChiralType.CHI_TETRAHEDRAL_CW, Chem.ChiralType.CHI_TETRAHEDRAL_CCW), repeat=len(centres)):
        for cb in itertools.product((None, Chem.BondStereo.STEREOE, Chem.BondStereo.STEREOZ), repeat=len(dbonds)):
            m = Chem.RWMol(m0)
            for i, t in zip(centres, ca):
                m.GetAtomWithIdx(i).SetChiralTag(t or Chem.ChiralType.CHI_UNSPECIFIED)
            for i, t in zip(dbonds, cb):
                b = m.GetBondWithIdx(i)
                if t is None:
                    b.SetStereo(Chem.BondStereo.STEREONONE)
                else:
                    sa = list(m0.GetBondWithIdx(i).GetStereoAtoms())
                    b.SetStereoAtoms(sa[0], sa[1])
                    b.SetStereo(t)
            smi = Chem.MolToSmiles(m)
            m2 = Chem.MolFromSmiles(smi)
            if m2 is None:
                continue
            out.setdefault(Chem.MolToSmiles(m2), m2)
    return out


def spellings(mol, limit=None):
    """SMILES spellings of one RDKit molecule: every root x three atom numberings, not canonical"""
    Chem = _rd()
    n = mol.GetNumAtoms()
    seen = []
    perms = [list(range(n)), list(range(n))[::-1], [(3 * i + 1) % n for i in range(n)] if n % 3 else [(2 * i + 1) % n if n % 2 else i for i in range(n)]]
    for p in perms:
        if sorted(p) != list(range(n)):
            continue
        mm = Chem.RenumberAtoms(mol, p)
        for root in range(n):
            for kek in (False,):
                s = Chem.MolToSmiles(mm, canonical=False, rootedAtAtom=root)
                if s not in seen:
                    seen.append(s)
    return seen[:limit] if limit else seen


_BRACKET_H = None


def smiles_to_smarts(text):
    """the same text in the documented SMARTS subset: [C@H] -> [C@;h1]; None when the convention for the text is not defined
    (chiral first atom carrying an implicit hydrogen: SMILES counts the hydrogen as the first neighbour, the SMARTS subset has no such rule)"""
    import re
    first = re.match(r'\[[A-Za-z]+@+H', text)
    if first:
        return None
    if '[H]' in text:
        return None

    def sub(mo):
        el, mark, h = mo.group(1), mo.group(2), mo.group(3)
        hn = 1 if h in ('H', 'H1') else int(h[1:])
        return '[%s%s;h%d]' % (el, mark, hn)
    return re.sub(r'\[([A-Z][a-z]?)(@{1,2})(H\d?)\]', sub, text)


def _count(qtext, ttext, cache):
    from chython import smarts, smiles
    if ttext not in cache:
        cache[ttext] = smiles(ttext)
    q = smarts(qtext)
    return sum(1 for _ in q.get_mapping(cache[ttext], automorphism_filter=False, _cython=False))


def stereo_case(qtext, qsmiles, ttext, cache=None):
    """(expected number of mappings by RDKit chirality-aware matching of the SMILES reading, chython count)"""
    Chem = _rd()
    cache = {} if cache is None else cache
    qm = Chem.MolFromSmiles(qsmiles)
    tm = Chem.MolFromSmiles(ttext)
    exp = len(tm.GetSubstructMatches(qm, useChirality=True, uniquify=False, maxMatches=100000))
    return exp, _count(qtext, ttext, cache)


def run_stereo_generic(shard):
    base, tier = shard
    acc = Acc()
    Chem = _rd()
    variants = stereo_variants(base)
    cache = {}
    tkeys = sorted(variants)
    for vi, (vt, vm) in enumerate(sorted(variants.items())):
        sp = spellings(vm)
        if tier == 'quick':
            sp = sp[::2] if len(sp) > 12 else sp
        for text in sp:
            q = smiles_to_smarts(text)
            if q is None:
                acc.ood['chiral first atom with implicit hydrogen: no documented convention in the SMARTS subset'] += 1
                continue
            acc.states += 1
            for tt in tkeys:
                acc.transitions += 1
                try:
                    exp, got = stereo_case(q, text, tt, cache)
                except Exception as e:
                    acc.fail('stereo SMARTS raises %s :: %s' % (type(e).__name__, base), kind='generic', smarts=q, smiles=text, target=tt)
                    continue
                acc.outcomes['match' if exp else 'no match'] += 1
                if (exp > 0) != (got > 0):
                    acc.fail('stereo-marked SMARTS %s where the SMILES reading of the same text (RDKit, chirality-aware) %s :: %s :: %s' % (
                        'matches' if got else 'does not match', 'does not' if got else 'does', base, _stereo_shape(text)), kind='generic', smarts=q, smiles=text, target=tt, expected=exp, chython=got)
                elif exp != got:
                    acc.fail('stereo-marked SMARTS gives %d mappings, chirality-aware reference %d :: %s' % (got, exp, base), kind='generic', smarts=q, smiles=text, target=tt, expected=exp, chython=got)
    acc.sample({'base': base, 'variants': len(variants)})
    return acc


def _stereo_shape(text):
    """coarse class of a spelling, for failure de-duplication"""
    import re
    cls = []
    if re.match(r'\[[A-Za-z]+@+\]?\d', text) or re.match(r'\[[A-Za-z]+@+[^\]]*\]\d', text):
        cls.append('chiral first atom opens a ring')
    if re.search(r'@+[^\]]*\]\d\d|@+[^\]]*\]\d%|@+[^\]]*\]%\d\d\d', text):
        cls.append('chiral atom with two ring digits')
    if re.search(r'\([/\\][^()]*\)[/\\]', text) or re.search(r'\((?:[^()/\\])[^()]*\)[/\\]', text):
        cls.append('double-bond atom with two substituents')
    return ', '.join(cls) or 'plain'


def run_stereo_templates(shard):
    """hand-built centre texts: every neighbour order x both marks x position (middle / first / fragment with the last neighbour dropped) + decorated double bonds + allenes"""
    from chython import smarts, smiles
    part, tier = shard
    acc = Acc()
    Chem = _rd()
    cache = {}
    if part == 'tet4':
        subs = ('F', 'Cl', 'Br', 'I')
        targets = ['F[C@](Cl)(Br)I', 'F[C@@](Cl)(Br)I', 'FC(Cl)(Br)I']
        for p in itertools.permutations(subs):
            a, b, c, d = p
            for mark in ('@', '@@', ''):
                br = '[C%s]' % mark if mark else 'C'
                full_mid = '%s%s(%s)(%s)%s' % (a, br, b, c, d)
                full_first = '%s(%s)(%s)(%s)%s' % (br, a, b, c, d)
                forms = [(full_mid, full_mid, 'middle'), (full_first, full_first, 'first'),
                         ('%s%s(%s)%s' % (a, br, b, c), full_mid, 'middle, last neighbour dropped'), ('%s(%s)(%s)%s' % (br, a, b, c), full_first, 'first, last neighbour dropped'),
                         ('%s%s(%s)(%s)[%s,At]' % (a, br, b, c, d), full_mid, 'middle, element list neighbour'), ('%s[C%s%s](%s)(%s)%s' % (a, mark, ';D4', b, c, d), full_mid, 'middle, with D4')]
                for q, qs, form in forms:
                    acc.states += 1
                    for tt in targets:
                        acc.transitions += 1
                        try:
                            exp, _ = stereo_case('C', qs, tt, cache)
                            got = _count(q, tt, cache)
                        except Exception as e:
                            acc.fail('stereo SMARTS raises %s :: tetrahedral %s' % (type(e).__name__, form), kind='tet4', smarts=q, smiles=qs, target=tt)
                            continue
                        acc.outcomes['match' if exp else 'no match'] += 1
                        if exp != got:
                            acc.fail('tetrahedral mark in SMARTS disagrees with the SMILES reading of the centre :: %s' % form, kind='tet4', smarts=q, smiles=qs, target=tt, expected=exp, chython=got)
    elif part == 'tet3h':
        subs = ('C', 'F', 'Cl')
        targets = ['C[C@H](F)Cl', 'C[C@@H](F)Cl', 'CC(F)Cl', 'C[C@](F)(Cl)Br', 'C[C@@](F)(Cl)Br']
        for p in itertools.permutations(subs):
            a, b, c = p
            for mark in ('@', '@@'):
                # SMILES equivalents: hydrogen (or the unnamed fourth neighbour) LAST in the neighbour list
                for q, form in (('%s[C%s;h1](%s)%s' % (a, mark, b, c), 'middle ;h1'), ('%s[C%s](%s)%s' % (a, mark, b, c), 'middle'), ('[C%s](%s)(%s)%s' % (mark, a, b, c), 'first'),
                                ('[C%s;h1](%s)(%s)%s' % (mark, a, b, c), 'first ;h1')):
                    acc.states += 1
                    for tt in targets:
                        last = 'Br' if 'Br' in tt else '[H]'
                        if 'h1' in q and last == 'Br':
                            qs = None
                        elif form.startswith('middle'):
                            qs = '%s[C%s](%s)(%s)%s' % (a, mark, b, c, last)
                        else:
                            qs = '[C%s](%s)(%s)(%s)%s' % (mark, a, b, c, last)
                        acc.transitions += 1
                        try:
                            got = _count(q, tt, cache)
                            if qs is None:
                                exp = 0
                            else:
                                qm = Chem.MolFromSmiles(qs)
                                tm = Chem.AddHs(Chem.MolFromSmiles(tt)) if last == '[H]' else Chem.MolFromSmiles(tt)
                                if last == '[H]':
                                    qm = Chem.MolFromSmiles(qs, sanitize=False)
                                    ps = Chem.SmilesParserParams()
                                    ps.removeHs = False
                                    qm = Chem.MolFromSmiles(qs, ps)
                                    # keep only the one explicit H of the centre as a query atom; other hydrogens stay implicit
                                exp = 1 if tm.HasSubstructMatch(qm, useChirality=True) else 0
                        except Exception as e:
                            acc.fail('stereo SMARTS raises %s :: tetrahedral three neighbours %s' % (type(e).__name__, form), kind='tet3h', smarts=q, target=tt)
                            continue
                        acc.outcomes['match' if exp else 'no match'] += 1
                        if exp != (1 if got else 0):
                            acc.fail('tetrahedral mark on a three-neighbour SMARTS atom disagrees with the reading "unnamed neighbour last" :: %s' % form, kind='tet3h', smarts=q, smiles=qs, target=tt,
                                     expected=exp, chython=got)
    elif part == 'decor':
        targets = ['F/C=C/Cl', 'F/C=C\\Cl', 'FC=CCl', 'F/C=C(/Cl)C', 'F/C=C(\\Cl)C', 'FC=C(Cl)C', 'F/C1=C(/Cl)CCCCCCCC1', 'FC1=C(Cl)CCCC1']
        bases = ['F/C=C/Cl', 'F/C=C\\Cl', 'F\\C=C\\Cl', 'C(/F)=C/Cl', 'C(\\F)=C/Cl', 'Cl/C=C/F', 'F/C=C(/Cl)C', 'F/C=C(\\Cl)C', 'F/C=C(C)/Cl', 'F/C=C(C)\\Cl', 'C(\\C)(/Cl)=C/F', 'CC(/Cl)=C/F', 'C/C(Cl)=C/F',
                 'FC=C/Cl', 'F/C=CCl', 'F/C=C(Cl)C']
        for b in bases:
            for dec, keeps in BOND_DECOR:
                q = b.replace('=', dec)
                acc.states += 1
                for tt in targets:
                    acc.transitions += 1
                    try:
                        got = _count(q, tt, cache)
                    except ValueError:
                        acc.outcomes['rejected as invalid SMARTS'] += 1
                        if dec in ('=', '=;!@', '=;@', '=,#', '=,:'):
                            acc.fail('documented bond primitive with cis/trans marks rejected :: %s' % dec, kind='decor', smarts=q, target=tt)
                        break
                    except Exception as e:
                        acc.fail('stereo SMARTS raises %s :: bond primitive %s between / \\ marks' % (type(e).__name__, dec), kind='decor', smarts=q, target=tt)
                        break
                    # reference: plain text by RDKit on the target, then the bond primitive on the target's bond
                    tm = Chem.MolFromSmiles(tt)
                    qm = Chem.MolFromSmiles(b)
                    exp = len(tm.GetSubstructMatches(qm, useChirality=True, uniquify=False))
                    if dec == '=;@':
                        exp = exp if 'C1' in tt else 0
                    elif dec == '=;!@':
                        exp = 0 if 'C1' in tt else exp
                    acc.outcomes['match' if exp else 'no match'] += 1
                    if exp != got:
                        acc.fail('cis/trans-marked SMARTS double bond %s disagrees with the reference :: primitive %s :: %s' % ('matches' if got else 'does not match', dec, _stereo_shape(b)), kind='decor',
                                 smarts=q, smiles=b, target=tt, expected=exp, chython=got)
    elif part == 'allene':
        # RDKit does not read allene marks: relational oracle on the library reader (checked on its own by C03/C12):
        # the text as SMARTS matches the text as SMILES, not its mirror image, and swapping the two substituents of one end flips it
        ends = [('C', 'F'), ('F', 'C')]
        ends2 = [('Cl', 'C'), ('C', 'Cl')]
        for (a, b) in ends:
            for (d, e) in ends2:
                for mark in ('@', '@@'):
                    text = '%sC(%s)=[C%s]=C(%s)%s' % (a, b, mark, d, e)
                    other = '%sC(%s)=[C%s]=C(%s)%s' % (a, b, '@' if mark == '@@' else '@@', d, e)
                    swapped = '%sC(%s)=[C%s]=C(%s)%s' % (b, a, mark, d, e)
                    plain = '%sC(%s)=C=C(%s)%s' % (a, b, d, e)
                    acc.states += 1
                    for tt, exp in ((text, 1), (other, 0), (swapped, 0), (plain, 0)):
                        acc.transitions += 1
                        try:
                            got = _count(text, tt, cache)
                        except Exception as e:
                            acc.fail('stereo SMARTS raises %s :: allene' % type(e).__name__, kind='allene', smarts=text, target=tt)
                            continue
                        acc.outcomes['match' if exp else 'no match'] += 1
                        if (got > 0) != bool(exp):
                            acc.fail('allene mark in SMARTS disagrees with the SMILES reading of the same text', kind='allene', smarts=text, target=tt, expected=exp, chython=got)
                    acc.transitions += 1
                    if _count(plain, text, cache) < 1:
                        acc.fail('unmarked SMARTS does not match the labelled allene', kind='allene', smarts=plain, target=text)
    return acc


def run_api(shard):
    """query atoms built through the API (constructor keywords and attribute assignment; int, tuple and list forms incl. 0) against every atom environment"""
    from chython.periodictable import Element, QueryElement, AnyElement, AnyMetal, ListElement
    k, nsh, tier = shard
    acc = Acc()
    s2z = {c.__name__: c.atomic_number.fget(None) for c in Element.__subclasses__()}
    envs = []
    for tag, m in mol_set('quick')[::2]:
        try:
            a, b = environments(m, s2z)
        except Exception:
            continue
        envs.append((tag, m, a))
    bases = [('C', lambda **kw: QueryElement.from_symbol('C')(**kw), {6}), ('#7', lambda **kw: QueryElement.from_atomic_number(7)(**kw), {7}), ('A', lambda **kw: AnyElement(**kw), None),
             ('N,O', lambda **kw: ListElement(['N', 'O'], **kw), {7, 8}), ('Cl,Br', lambda **kw: ListElement(['Cl', 'Br'], **kw), {17, 35}), ('M', lambda **kw: AnyMetal(**kw), 'metal')]
    fields = [('neighbors', 'D', [0, 1, 2, 3, 4]), ('implicit_hydrogens', 'h', [0, 1, 2, 3]), ('heteroatoms', 'x', [0, 1, 2]), ('hybridization', 'z', [1, 2, 3, 4]), ('ring_sizes', 'r', [0, 3, 5, 6])]
    cases = []
    for bname, ctor, zs in bases:
        for fname, kind, dom in fields:
            if bname == 'M' and fname not in ('neighbors', 'hybridization'):
                continue
            for v in dom:
                forms = [('int', v), ('tuple', (v,)), ('list', [v])]
                if kind == 'r' and v == 0:
                    forms = [('int', 0)]   # 0 = "not in a ring" exists only as a bare integer
                for form, val in forms:
                    for via in ('ctor', 'setter'):
                        cases.append((bname, ctor, zs, fname, kind, (v,), form, val, via))
            for v, w in itertools.combinations([d for d in dom if not (kind == 'r' and d == 0)], 2):
                for form, val in (('tuple', (v, w)), ('list', [w, v])):
                    cases.append((bname, ctor, zs, fname, kind, (v, w), form, val, 'ctor'))
    for ci, (bname, ctor, zs, fname, kind, vals, form, val, via) in enumerate(cases):
        if ci % nsh != k:
            continue
        desc = '%s %s=%r (%s, %s)' % (bname, fname, val, form, via)
        try:
            if via == 'ctor':
                q = ctor(**{fname: val})
            else:
                q = ctor()
                setattr(q, fname, val)
        except Exception as e:
            acc.fail('documented query-atom value rejected through the API: %s :: %s %s' % (type(e).__name__, fname, form), case=desc)
            continue
        acc.states += 1
        prim = ('R', None) if (kind == 'r' and vals == (0,)) else (kind, set(vals))
        for tag, m, aenv in envs:
            exp = set()
            skip = False
            for n, env in aenv.items():
                r = atom_ok(zs, [prim], 0 if bname != 'M' else None, env, None)
                if r is None:
                    skip = True
                    break
                if r:
                    exp.add(n)
            if skip:
                acc.ood['ring sizes ambiguous (minimum cycle basis not unique)'] += 1
                continue
            acc.transitions += 1
            got = {n for n, a in m.atoms() if q == a}
            if got != exp:
                d = sorted(got ^ exp)[0]
                acc.fail('API-built query atom == molecule atom differs from the attribute oracle :: %s as %s via %s' % (fname, form, via), case=desc, mol=tag, atom=d, chython=d in got)
                break
            acc.outcomes[len(exp) > 0] += 1
    acc.sample({'cases': len(cases), 'example': [c[0] + ' ' + c[3] + '=' + repr(c[7]) for c in cases[:5]]})
    return acc


def run_from_atom(shard):
    """query atoms copied from molecule atoms (QueryElement.from_atom, QueryContainer.add_atom(<molecule atom>)) with every subset-of-one of the optional attributes:
    the copy matches exactly the atoms whose independently determined attributes equal those of the source atom"""
    from chython import QueryContainer
    from chython.periodictable import Element, QueryElement
    k, nsh, tier = shard
    acc = Acc()
    s2z = {c.__name__: c.atomic_number.fget(None) for c in Element.__subclasses__()}
    envs = []
    for tag, m in mol_set('quick')[::3] + [x for x in mol_set('quick') if x[0] in ('[CH3]', 'C[O]', '[13CH4]', 'C[2H]', 'CC(=O)[O-]', 'C[N+](C)(C)C', 'c1cc[nH]c1 (as parsed)', 'C1CC1C1CC1')]:
        try:
            a, b = environments(m, s2z)
        except Exception:
            continue
        envs.append((tag, m, a))
    flags = [(), ('neighbors',), ('hybridization',), ('heteroatoms',), ('hydrogens',), ('ring_sizes',)]
    ci = 0
    for stag, sm, senv in envs:
        for n, atom in sm.atoms():
            ci += 1
            if ci % nsh != k:
                continue
            se = senv[n]
            if se['r'] is None:
                continue
            for fl in flags:
                acc.states += 1
                try:
                    q = QueryElement.from_atom(atom, **{f: True for f in fl})
                    qc = QueryContainer('')
                    qc.add_atom(atom)
                    q2 = qc.atom(next(iter(qc)))
                except Exception as e:
                    acc.fail('from_atom raised %s' % type(e).__name__, mol=stag, atom=n, flags=list(fl))
                    continue
                for tag, m, aenv in (envs[::4] + [(stag, sm, senv)]):
                    if any(e['r'] is None for e in aenv.values()):
                        continue
                    acc.transitions += 1

                    def same(e):
                        if (e['z'], e['charge'], bool(e['rad'])) != (se['z'], se['charge'], bool(se['rad'])):
                            return False
                        if atom.isotope and e['iso'] != atom.isotope:
                            return False
                        if 'neighbors' in fl and e['D'] != se['D']:
                            return False
                        if 'hybridization' in fl and e['z_'] != se['z_']:
                            return False
                        if 'heteroatoms' in fl and e['x'] != se['x']:
                            return False
                        if 'hydrogens' in fl and se['h'] is not None and e['h'] != se['h']:
                            return False
                        if 'ring_sizes' in fl and se['r'] and not (e['r'] & se['r']):
                            return False
                        return True
                    exp = {x for x, e in aenv.items() if same(e)}
                    try:
                        got = {x for x, a in m.atoms() if q == a}
                    except Exception as e:
                        acc.fail('comparing a query atom copied by from_atom raised %s :: %s' % (type(e).__name__, '+'.join(fl) or 'plain'), mol=stag, atom=n, target=tag)
                        break
                    if got != exp:
                        d = sorted(got ^ exp)[0]
                        acc.fail('query atom copied from a molecule atom (from_atom) matches other atoms than the attribute oracle says :: %s' % ('+'.join(fl) or 'plain'), mol=stag, atom=n, target=tag, other=d,
                                 chython=d in got)
                        break
                    if not fl:
                        got2 = {x for x, a in m.atoms() if q2 == a}
                        if got2 != exp:
                            acc.fail('QueryContainer.add_atom(<molecule atom>) gives a query atom that differs from the attribute oracle', mol=stag, atom=n, target=tag)
                            break
                acc.outcomes[fl] += 1
    acc.sample({'source molecules': len(envs), 'flags': [list(f) for f in flags]})
    return acc


def plan(tier, seed):
    return [Stage('atom primitives and pairs', run_atoms, [(k, 64, tier) for k in range(64)], '15 element specs x (27 primitives + all pairs) (+charges, isotopes) x every atom of the molecule scope'),
            Stage('bond primitives', run_bonds, [(k, 21, tier) for k in range(21)], '%d bond primitives (orders, lists, negations, ring/non-ring) x every bond of the molecule scope' % len(BONDS)),
            Stage('unsupported / malformed SMARTS', run_syntax, [0], 'unsupported constructs and all token strings of length <=3: ValueError family or a query'),
            Stage('query atoms built through the API', run_api, [(k, 16, tier) for k in range(16)],
                  '6 kinds of query atom x 5 attributes x every value (incl. 0) as int / tuple / list, by constructor keyword and by assignment, and value pairs x every atom of the molecule scope'),
            Stage('query atoms copied from molecule atoms', run_from_atom, [(k, 16, tier) for k in range(16)],
                  'QueryElement.from_atom / QueryContainer.add_atom(atom) for every atom of the sampled molecule scope (incl. radicals, isotopes, charges) x each optional attribute x target molecules'),
            Stage('stereo marks: templates', run_stereo_templates, [(p, tier) for p in ('tet4', 'tet3h', 'decor', 'allene')],
                  'tetrahedral centre texts: all 24/6 neighbour orders x both marks x middle/first/fragment forms; cis/trans texts x 6 bond primitives; allene texts; x labelled/unlabelled targets'),
            Stage('stereo marks: spellings', run_stereo_generic, [(b, tier) for b in (STEREO_BASES_QUICK if tier == 'quick' else STEREO_BASES)],
                  'every (partly) labelled variant of each base x RDKit spellings (every root x 3 numberings) as SMARTS x every variant as target, vs chirality-aware RDKit matching of the SMILES reading')]


def replay(rec):
    from chython import smarts, smiles
    from chython.periodictable import Element
    key = rec['key']
    if rec.get('kind') == 'generic':
        try:
            exp, got = stereo_case(rec['smarts'], rec['smiles'], rec['target'])
        except Exception:
            return [{'key': key}]
        return [{'key': key}] if exp != got else []
    if 'from_atom' in key or 'add_atom(<molecule atom>)' in key:
        accs = [run_from_atom((k, 16, 'quick')) for k in range(16)]
        return [f for a in accs for f in a.fails if f['key'] == key]
    if 'API' in key:
        accs = [run_api((k, 16, 'quick')) for k in range(16)]
        return [f for a in accs for f in a.fails if f['key'] == key]
    if rec.get('kind') in ('tet4', 'tet3h', 'decor', 'allene'):
        a = run_stereo_templates((rec['kind'], 'quick'))
        return [f for f in a.fails if f['key'] == key]
    if 'unsupported' in key or 'unrelated exception' in key:
        a = run_syntax(0)
        return [f for f in a.fails if f['key'] == key]
    if 'bond' in key:
        accs = [run_bonds((k, 21, 'quick')) for k in range(21)]
        return [f for a in accs for f in a.fails if f['key'] == key]
    # atom primitive: re-evaluate the recorded query on the recorded molecule
    s2z = {c.__name__: c.atomic_number.fget(None) for c in Element.__subclasses__()}
    txt, tag = rec['smarts'], rec['mol']
    mols = dict(mol_set('thorough'))
    m = mols.get(tag)
    if m is None:
        return []
    aenv, _ = environments(m, s2z)
    q = smarts(txt)
    qa = q.atom(next(iter(q)))
    n = rec.get('atom')
    if n is None:
        return [{'key': key}]
    return [{'key': key}] if (qa == m.atom(n)) == rec.get('chython') else []
