"""C01 -- canonical SMILES / equality / hash depend on the structure only."""
import itertools

from ..core import Acc, Stage
from ..oracle import symmetry
from ..scope import molecules as M, graphs, inputs
from .. import chooser
from ..oracle import knownclass

META = {
    'technique': 'bounded exhaustive enumeration of descriptions of one molecule (all numberings, insertion orders, every traversal of the random-order writer via a choice-point explorer, RDKit spellings over renumberings x roots) on the real canonicaliser',
    'rule': 'one state per (molecule, description); every description must give the same canonical string, hash and ==; spellings are re-read by smiles() and normalised (kekule+thiele) when they come from the other toolkit',
    'assumptions': ['descriptions of one molecule are equivalent by construction (renumberings / respellings of one object)',
                    'the two exclusions of the property are recognised on the input graph by vf/oracle/symmetry.py before chython is called'],
}


FORMAT_SPECS = ('h', 'A', 'a', '!z', '!x', '!b', 'hA')


def allene_centres(m):
    """for exclusion (i): an allene label on a central atom concerns the substituents of the two terminal atoms"""
    out = []
    for n, a in m.atoms():
        if a.stereo is not None and len(m._bonds[n]) == 2 and all(b.order == 2 for b in m._bonds[n].values()):
            ends = []
            for start in m._bonds[n]:
                cur, prev = start, n
                while len(m._bonds[cur]) == 2 and all(b.order == 2 for b in m._bonds[cur].values()):
                    nxt = [x for x in m._bonds[cur] if x != prev][0]
                    prev, cur = cur, nxt
                ends.append((cur, prev))
            out.append(tuple(ends))
    return out


def domain(m):
    atoms, adj, st_atoms, st_bonds = symmetry.plain_from_chython(m)
    orb = symmetry.orbits(atoms, adj)
    tetra = [n for n in st_atoms if not (len(adj[n]) == 2 and all(o == 2 for o in adj[n].values()))]
    if symmetry.excl_i(atoms, adj, tetra, st_bonds + allene_centres(m), orb):
        return 'i: stereo label on a centre with constitutionally equivalent substituents'
    if symmetry.excl_ii(atoms, adj, orb):
        return 'ii: cage-like ring system with equivalent ring atoms'
    return None


def norm(m, foreign=False):
    if foreign:
        m.kekule()
        m.thiele()
    return m


def _marks(text):
    import re
    return len(re.findall(r'@+', text)) + len(re.findall(r'[/\\]', text))


def check_descriptions(acc, m0, tag, numberings, chooser_bound, rdkit_text=None, api_spec=None, foreign_norm=True):
    from chython import smiles
    ood = domain(m0)
    ref = m0.copy()
    if foreign_norm:
        try:
            ref.kekule()
            ref.thiele()
        except Exception:
            acc.ood['not kekulisable'] += 1
            return
    ref_s, ref_h = str(ref), hash(ref)
    fails = []

    def bad(what, **d):
        fails.append((what, d))
    nums = list(ref)
    # 0. the canonical string must not depend on which derived value is asked for first
    for first in ('smiles_atoms_order', 'hash', 'fmt_h', 'atoms_order', 'eq'):
        acc.states += 1
        acc.transitions += 2
        c = ref.copy()
        if first == 'smiles_atoms_order':
            c.smiles_atoms_order
        elif first == 'hash':
            hash(c)
        elif first == 'fmt_h':
            format(c, 'h')
        elif first == 'atoms_order':
            c.atoms_order
        else:
            c == ref
        if str(c) != ref_s or hash(c) != ref_h or not (c == ref):
            bad('canonical string depends on which derived value is read first (%s)' % first, got=str(c), expected=ref_s)
            break
    # 1. renumberings (the plain string, hash, equality; the strings written with format options, which share the canonical order)
    ref_f = {spec: format(ref, spec) for spec in FORMAT_SPECS}
    for p in numberings:
        acc.states += 1
        acc.transitions += 1
        c = ref.copy()
        c.remap(dict(zip(nums, p)))
        if str(c) != ref_s or hash(c) != ref_h or not (c == ref):
            bad('canonical string depends on atom numbering', numbering=list(p), got=str(c), expected=ref_s)
            break
        for spec in FORMAT_SPECS:
            acc.transitions += 1
            if format(c.copy(), spec) != ref_f[spec]:
                bad('string written with a format option depends on atom numbering (%s)' % spec, numbering=list(p), got=format(c.copy(), spec), expected=ref_f[spec])
                break
        else:
            continue
        break
    # 2. API construction orders
    if api_spec is not None:
        n = len(api_spec['atoms'])
        orders = itertools.permutations(range(n)) if n <= 5 else [list(range(n)), list(range(n))[::-1]]
        for ao in orders:
            for bo in (api_spec['bonds'], api_spec['bonds'][::-1]):
                acc.states += 1
                acc.transitions += 1
                c = M.to_chython(dict(api_spec, bonds=bo), atom_order=list(ao), skip=False)
                if foreign_norm:
                    c.kekule()
                    c.thiele()
                if str(c) != ref_s or hash(c) != ref_h:
                    bad('canonical string depends on insertion order', atom_order=list(ao), got=str(c), expected=ref_s)
                    break
    # 3. every traversal of the library's own random-order writer, re-read
    seen = set()
    for text, order, script in chooser.explore(ref, 'r', bound=chooser_bound, limit=3000):
        if text in seen:
            continue
        seen.add(text)
        acc.states += 1
        acc.transitions += 2
        try:
            c = smiles(text)
            if foreign_norm and any(b.order == 4 for *_, b in c.bonds()):
                c.kekule()
                c.thiele()
        except Exception as e:
            bad('own random-order spelling cannot be re-read: %s' % type(e).__name__, text=text, script=list(script))
            break
        if str(c) != ref_s or hash(c) != ref_h or not (c == ref):
            if knownclass.ct_closure(text) or knownclass.ct_closure(ref_s):
                bad('re-reading an own random-order spelling gives a different canonical string' + knownclass.TAG, text=text, script=list(script), got=str(c), expected=ref_s)
                continue
            bad('re-reading an own random-order spelling gives a different canonical string', text=text, script=list(script), got=str(c), expected=ref_s)
            break
    acc.info['own spellings'] += len(seen)
    # 4. the other toolkit's spellings
    if rdkit_text is not None:
        from rdkit import Chem
        rd = Chem.MolFromSmiles(rdkit_text)
        if rd is not None and _marks(Chem.MolToSmiles(rd)) < _marks(rdkit_text):
            # the other toolkit does not carry this kind of stereo (allene centres, cis/trans of longer cumulenes): its spellings describe another, unlabelled, molecule
            acc.ood['stereo kind not carried by the other toolkit: its spellings are not used'] += 1
            rd = None
        if rd is not None:
            texts = set()
            n = rd.GetNumAtoms()
            perms = [list(range(n)), list(range(n))[::-1]] + [list(range(k, n)) + list(range(k)) for k in range(1, n, max(1, n // 5))]
            for p in perms:
                r2 = Chem.RenumberAtoms(rd, p)
                for root in range(0, n, max(1, n // 6)):
                    for kek in (False, True):
                        try:
                            texts.add(Chem.MolToSmiles(r2, rootedAtAtom=root, canonical=False, kekuleSmiles=kek))
                        except Exception:
                            pass
            for text in sorted(texts):
                acc.states += 1
                acc.transitions += 2
                try:
                    c = smiles(text)
                    c.kekule()
                    c.thiele()
                except Exception as e:
                    acc.ood['rdkit spelling not readable/kekulisable by chython'] += 1
                    continue
                if str(c) != ref_s or hash(c) != ref_h:
                    if knownclass.ct_closure(ref_s) or knownclass.ct_closure(str(c)):
                        bad('re-reading a spelling of another toolkit gives a different canonical string' + knownclass.TAG, text=text, got=str(c), expected=ref_s)
                        continue
                    bad('re-reading a spelling of another toolkit gives a different canonical string', text=text, got=str(c), expected=ref_s)
                    break
            acc.info['rdkit spellings'] += len(texts)
    if fails:
        if ood:
            acc.ood['out of domain ' + ood] += 1
        else:
            fails.sort(key=lambda f: knownclass.TAG in f[0])
            what, d = fails[0]
            acc.fail('%s :: %s' % (what, tag), mol=tag, **d)
            acc.outcomes['FAIL ' + what] += 1
    else:
        acc.outcomes['invariant' + (' (inside exclusion)' if ood else '')] += 1


def spec_smiles(spec):
    """SMILES text of a spec written by RDKit (independent of chython); None if RDKit rejects"""
    from ..oracle import rdk
    from rdkit import Chem
    r = rdk.from_spec(spec)
    if r is None:
        return None
    return Chem.MolToSmiles(r)


def run_small(shard):
    from rdkit import RDLogger
    RDLogger.DisableLog('rdApp.*')
    k, nsh, tier = shard
    acc = Acc()
    nmax, kk = (5, 1) if tier == 'quick' else (6, 1)
    for i, spec in enumerate(M.scope(nmax, kk, shard=k, nshards=nsh)):
        m = M.to_chython(spec)
        n = len(m)
        if m.check_valence():
            acc.ood['not valence-valid'] += 1
            continue
        nums = list(m)
        perms = itertools.permutations(nums) if n <= 5 else [list(p.values()) for p in graphs.gen_perms(nums)]
        check_descriptions(acc, m, spec['tag'], perms, None if n <= 6 else 2,
                           rdkit_text=None if any(a[0] == 'H' for a in spec['atoms']) else spec_smiles(spec), api_spec=spec)
        if i < 2 and k == 0:
            acc.sample({'mol': spec['tag'], 'numberings': 'ALL' if n <= 5 else 'GEN', 'own spellings': 'all traversals', 'other toolkit': 'renumberings x roots x kekule'})
    return acc


def skeleton_specs(nmax, rmax):
    from ..scope import skeletons
    sk = skeletons.load(nmax)
    for n in range(3, nmax + 1):
        for _, edges in sk[n]:
            if 1 <= len(edges) - n + 1 <= rmax:
                yield {'atoms': [('C', 0, False, None)] * n, 'bonds': [(a, b, 1) for a, b in edges], 'tag': 'skeleton n%d e%s' % (n, edges)}


def run_skeletons(shard):
    """carbon skeletons up to 7 atoms incl. polycyclic cages x ALL numberings (exclusion ii lives here)"""
    k, nsh, tier = shard
    acc = Acc()
    for i, spec in enumerate(skeleton_specs(6 if tier == 'quick' else 7, 4)):
        if i % nsh != k:
            continue
        m = M.to_chython(spec)
        nums = list(m)
        perms = itertools.permutations(nums) if len(nums) <= 6 else [list(p.values()) for p in graphs.gen_perms(nums)] + list(itertools.islice(itertools.permutations(nums), 0, 5040, 7))
        check_descriptions(acc, m, spec['tag'], perms, 1, rdkit_text=None, api_spec=None, foreign_norm=False)
    return acc


def run_text(shard):
    from chython import smiles
    from rdkit import RDLogger
    RDLogger.DisableLog('rdApp.*')
    k, nsh, tier = shard
    acc = Acc()
    rows = [('stereo', s) for s in inputs.ring_stereo_family()]
    rows += [('radical', s) for s in ('C[CH]C |^1:1|', '[CH3] |^1:0|', 'C[O] |^1:1|', 'CC(C)[CH2] |^1:3|', '[CH2]CC[CH2] |^1:0,3|', 'C1CC1[CH]C |^1:3|')]
    rows += [('multi', s) for s in ('[Na+].[Cl-]', 'CC(=O)[O-].[Na+]', 'CCO.CCO', 'C1CC1.CC.O', 'c1ccccc1.Cl', 'CC[NH3+].[Cl-].O')]
    # several ring-bearing components: ring-closure digits across components, components whose atoms look alike locally
    rows += [('multi-ring', s) for s in ('c1ccccc1.c1ccc2ccccc2c1', 'C1CC1.C1CC2CCC1C2', 'Cc1ccc(cc1)S(=O)(=O)[O-].C[NH+]1CCC2CCCCC2C1', 'C1CCCCC1.C1CC1', 'C1CCC1.C1CC1', 'C1CCCCC1.C1CCCC1',
                                        'C1CCCCC1.c1ccccc1.C1CC1', 'C1CCOCC1.C1CCOC1', 'OC(=O)c1ccccc1.C1CCC2CCCCC2C1', 'C1CC1.C1CC1.C1CCC1', 'c1ccncc1.c1ccc2ncccc2c1', 'CC1CC1.CC1CCC1')]
    rows += [('iso', s) for s in ('[13CH3]C', 'C[13CH2]C', '[2H]C([2H])C', 'C[15NH2]', '[18OH]C')]
    # stereocentres carrying an isotopic hydrogen ATOM (kept as an atom by both toolkits): the hydrogen takes every position in the spellings of the other toolkit
    rows += [('isoH', s) for s in ('[2H][C@](C)(O)CC', 'C[C@](O)([2H])CC', 'N[C@@]([2H])(C)C(=O)O', '[3H][C@](F)(Cl)Br', 'C[C@@]([2H])(O)c1ccccc1', 'C[C@]1([2H])CCCO1', 'F[C@]([2H])(Cl)[C@@]([2H])(F)Br')]
    rows += [('alternating', s) for s in ('C1=CC=C1', 'C1=CC=CC=CC=C1', 'C1=CC=CC=CC=CC=C1', 'C=C1C=CC(=C)C=C1', 'O=C1C=CC(=O)C=C1', 'C1=CC=C1C', 'C1=CC1', 'C1=CCC=CC1', 'C1=CC=CCC1')]
    rows += [('metal', s) for s in inputs.organometallics()[::4]]
    # fused, bridged, spiro and cage ring systems (those with a polyhedral skeleton fall under exclusion (ii) and are only counted)
    rows += [('polycyclic', s) for s in ('c1ccc2ccccc2c1', 'c1ccc2cc3ccccc3cc2c1', 'c1ccc2c(c1)ccc1ccccc12', 'c1ccc2c(c1)c1ccccc1c1ccccc21', 'c1cc2cccc3c2c(c1)c1cccc2cccc3c12', 'c1ccc2c(c1)c1ccccc21',
                                        'c1ccc2c(c1)Cc1ccccc12', 'C1CC2CCC1CC2', 'C1CC2CCC1C2', 'C1CC11CC1', 'C1CCC2CCCCC2C1', 'C1CCC2(CC1)CCCC2', 'c1cc2ccc3cccc4ccc(c1)c2c34', 'C1C2CC3CC1CC(C2)C3',
                                        'OC12CC3CC(CC(C3)C1)C2', 'C1N2CN3CN1CN(C2)C3', 'C12C3C4C1C1C2C3C41', 'c1ccc2c(c1)ccc1c2ccc2ccccc12', 'c1ccc2cc3cc4ccccc4cc3cc2c1', 'C1CC2CCC3CCCC1C23',
                                        'Cc1c2ccccc2cc2ccccc12', 'c1ccc2c(c1)[nH]c1ccccc12', 'c1ccc2c(c1)oc1ccccc12', 'C1CCC2C(C1)CCC1CCCCC12', 'CC(N)C12CC3CC(CC(C3)C1)C2', 'c1ccc(cc1)C12CC3CC(CC(C3)C1)C2')]
    rows += [('corpus', s) for s in M.corpus(stride=16 if tier == 'quick' else 2)]
    for i, (fam, s) in enumerate(rows):
        if i % nsh != k:
            continue
        try:
            m = smiles(s)
        except Exception:
            acc.ood['unreadable input'] += 1
            continue
        nums = list(m)
        perms = [list(p.values()) for p in graphs.gen_perms(nums)]
        if len(nums) > 12:
            perms = perms[:: max(1, len(perms) // 12)]
        check_descriptions(acc, m, s, perms, 1 if len(nums) > 8 else None, rdkit_text=s.split()[0] if fam != 'radical' else None, api_spec=None)
        if i < 2:
            acc.sample({'smiles': s, 'family': fam})
    return acc


def plan(tier, seed):
    return [Stage('small scope: all descriptions', run_small, [(k, 64, tier) for k in range(64)],
                  'D(<=%d,1) x ALL numberings (n<=5) x all atom insertion orders x every traversal of the random writer x RDKit spellings' % (5 if tier == 'quick' else 6)),
            Stage('carbon skeletons incl. cages', run_skeletons, [(k, 32, tier) for k in range(32)], 'all connected skeletons n<=%d with 1..4 rings x ALL numberings (n<=6)' % (6 if tier == 'quick' else 7)),
            Stage('stereo/radical/multi-component/isotope/metal families + corpus', run_text, [(k, 64, tier) for k in range(64)],
                  'text families x GEN numberings x all (<=8 atoms) or <=1-deviation traversals x RDKit spellings; corpus stride %d' % (16 if tier == 'quick' else 2))]


def replay(rec):
    from chython import smiles
    acc = Acc()
    tag = rec['mol']
    if tag.startswith('skeleton'):
        for spec in skeleton_specs(7, 4):
            if spec['tag'] == tag:
                m = M.to_chython(spec)
                nums = list(m)
                check_descriptions(acc, m, tag, [rec['numbering']] if rec.get('numbering') else itertools.permutations(nums), 1, foreign_norm=False)
    elif tag.startswith('n'):
        for spec in M.scope(6, 1):
            if spec['tag'] == tag:
                m = M.to_chython(spec)
                check_descriptions(acc, m, tag, itertools.permutations(list(m)) if len(m) <= 5 else [list(p.values()) for p in graphs.gen_perms(list(m))], None, rdkit_text=spec_smiles(spec), api_spec=spec)
    else:
        m = smiles(tag)
        nums = list(m)
        check_descriptions(acc, m, tag, [list(p.values()) for p in graphs.gen_perms(nums)], 1 if len(nums) > 8 else None, rdkit_text=tag.split()[0] if '|' not in tag else None)
    return [f for f in acc.fails if f['key'] == rec['key']]
