"""C13 -- explicit-state exploration of edit histories on the real MoleculeContainer.

State      = history of (event, read-pattern) pairs, replayed on a fresh seed (live molecules are never copied by the
             explorer: copy() is itself under test).
Transition = one public edit call followed by one environment choice: WHICH derived values are read afterwards
             (default: all; deviations: all-reversed, none, exactly one) -- this is what makes a stale cache observable.
Oracle     = a molecule rebuilt from scratch through add_atom/add_bond from the raw atoms/bonds (same numbers, same
             insertion orders, same raw labels); every derived value must be equal. Plus adjacency symmetry,
             transaction atomicity, copy independence.
"""
import hashlib
import itertools

from ..core import Acc, Stage

META = {
    'technique': 'explicit-state breadth-first search over edit histories (canonical state hashing, deviation-bounded '
                 'environment choice of which caches are read) on the real implementation, reference = rebuilt molecule',
    'rule': 'a state is (raw atoms/bonds in insertion order, stereo marks, transaction bookkeeping, set of populated cache '
            'keys); states are deduplicated by that key; a transition is one public edit call plus one read pattern',
    'assumptions': ['a molecule rebuilt through add_atom/add_bond in the same insertion order is the reference for every derived value',
                    'states are merged only after all invariants held in them, so cached values are functions of the raw part'],
}


class Boom(Exception):
    pass


# ----------------------------------------------------------------------------- seeds

def _seed(name):
    from .. import mk
    S = {
        'C': ([(1, 'C')], []),
        'CC': ([(1, 'C'), (2, 'C')], [(1, 2, 1)]),
        'C=C': ([(1, 'C'), (2, 'C')], [(1, 2, 2)]),
        'CCO': ([(1, 'C'), (2, 'C'), (3, 'O')], [(1, 2, 1), (2, 3, 1)]),
        'C1CC1': ([(1, 'C'), (2, 'C'), (3, 'C')], [(1, 2, 1), (2, 3, 1), (1, 3, 1)]),
        'C1CC1C': ([(1, 'C'), (2, 'C'), (3, 'C'), (4, 'C')], [(1, 2, 1), (2, 3, 1), (1, 3, 1), (3, 4, 1)]),
        'NaCl': ([(1, 'Na', {'charge': 1}), (2, 'Cl', {'charge': -1})], []),
        'CC(N)O@': ([(1, 'C'), (2, 'C'), (3, 'N'), (4, 'O')], [(1, 2, 1), (2, 3, 1), (2, 4, 1)]),
        'CC=CC/': ([(1, 'C'), (2, 'C'), (3, 'C'), (4, 'C')], [(1, 2, 1), (2, 3, 2), (3, 4, 1)]),
        'C1CCC1': ([(1, 'C'), (2, 'C'), (3, 'C'), (4, 'C')], [(1, 2, 1), (2, 3, 1), (3, 4, 1), (1, 4, 1)]),
        'CN~Cu': ([(1, 'C'), (2, 'N'), (3, 'Cu')], [(1, 2, 1), (2, 3, 8)]),
    }
    if name.startswith('smi:'):
        # medium seeds: read once, then rebuilt through the public constructor path from the raw snapshot (no reader-specific state survives)
        from chython import smiles
        m0 = smiles(name[4:])
        m, _ = rebuild(raw(m0))
        return m
    atoms, bonds = S[name]
    m = mk.build(atoms, bonds)
    if name == 'CC(N)O@':
        m.add_atom_stereo(2, (1, 3, 4), True)
    elif name == 'CC=CC/':
        m.add_cis_trans_stereo(2, 3, 1, 4, True)
    return m


SEEDS_QUICK = ['C', 'CC', 'C=C', 'CCO', 'C1CC1', 'NaCl', 'CC(N)O@', 'CC=CC/', 'CN~Cu']
SEEDS_THOROUGH = SEEDS_QUICK + ['C1CC1C', 'C1CCC1']
# medium seeds (5-10 atoms, Kekule forms only: hydrogens of aromatic atoms are not derivable from atoms and bonds): rings with ambiguous bases, stereo of every kind, zwitterion, metal
SEEDS_MEDIUM = ['smi:C1=CC=CC=C1', 'smi:C[C@H](N)C(=O)O', 'smi:C/C=C/C=C\\C', 'smi:C1CC2CCC1C2', 'smi:C[N+](C)(C)CC([O-])=O', 'smi:C1CCC2(CC1)OCCO2', 'smi:O=C1C=CC(=O)C=C1',
                'smi:C[C@H]1CC[C@@H](O)CC1', 'smi:CC=[C@]=CC', 'smi:C#CC[N+]#[C-]', 'smi:C[Mg]Br', 'smi:C1CC1C1CC1', 'smi:N1C=CC=C1', 'smi:C[C@@]12CCC[C@H]1C2', 'smi:OO.[Na+].[Cl-]', 'smi:C1CCO[C@H]1C', 'smi:N1CCC[C@H]1C(=O)O']
SEEDS_MEDIUM_QUICK = SEEDS_MEDIUM[:5] + ['smi:C1CCO[C@H]1C', 'smi:C1CC1C1CC1', 'smi:CC=[C@]=CC']


# ----------------------------------------------------------------------------- raw snapshot, rebuild, readers

def raw(m):
    atoms = tuple((n, a.atomic_symbol, a.isotope, a.charge, a.is_radical, a.stereo) for n, a in m._atoms.items())
    nbrs = tuple((n, tuple((k, b.order, b.stereo) for k, b in ms.items())) for n, ms in m._bonds.items())
    return atoms, nbrs


def check_adjacency(m):
    """I1"""
    atoms, bonds = m._atoms, m._bonds
    if set(atoms) != set(bonds):
        return 'I1 atom keys != bond keys'
    for n, ms in bonds.items():
        for k, b in ms.items():
            if k == n:
                return 'I1 loop'
            if k not in bonds or n not in bonds[k]:
                return 'I1 asymmetric adjacency'
            if bonds[k][n] is not b:
                return 'I1 bond object not shared'
    seen = {}
    for n, ms in bonds.items():
        for k, b in ms.items():
            key = (min(n, k), max(n, k))
            if seen.setdefault(id(b), key) != key:
                return 'I1 bond object shared between two bonds'
    ids = [id(a) for a in atoms.values()]
    if len(set(ids)) != len(ids):
        return 'I1 atom object shared'
    return None


def rebuild(rw):
    """fresh molecule through the public constructor path, same numbers / insertion orders / raw labels"""
    from chython import MoleculeContainer
    from chython.periodictable import Element
    atoms, nbrs = rw
    m = MoleculeContainer()
    order = [n for n, _ in nbrs]
    amap = {a[0]: a for a in atoms}
    # atoms are added in _atoms order; if _bonds order differs it is part of the state key, not of the rebuilt reference
    for n, sym, iso, ch, rad, st in atoms:
        m.add_atom(Element.from_symbol(sym)(iso, charge=ch, is_radical=rad), n)
    rem = {n: [k for k, _, _ in ks] for n, ks in nbrs}
    orders = {(n, k): o for n, ks in nbrs for k, o, _ in ks}
    pending = sum(len(v) for v in rem.values()) // 2
    fallback = False
    while pending:
        progress = False
        for n in order:
            while rem[n]:
                k = rem[n][0]
                if rem[k] and rem[k][0] == n:
                    m.add_bond(n, k, orders[(n, k)])
                    rem[n].pop(0)
                    rem[k].pop(0)
                    pending -= 1
                    progress = True
                else:
                    break
        if not progress:
            fallback = True
            break
    if fallback:  # no global insertion order reproduces all neighbour orders: add the rest, then reorder the dicts
        for n in order:
            for k in list(rem[n]):
                if not m.has_bond(n, k):
                    m.add_bond(n, k, orders[(n, k)])
        for n, ks in nbrs:
            d = m._bonds[n]
            m._bonds[n] = {k: d[k] for k, _, _ in ks}
        m.flush_cache()
        m.fix_structure()
    anyst = False
    for n, sym, iso, ch, rad, st in atoms:
        if st is not None:
            m._atoms[n]._stereo = st
            anyst = True
    for n, ks in nbrs:
        for k, o, st in ks:
            if st is not None:
                m._bonds[n][k]._stereo = st
                anyst = True
    if anyst:
        m.flush_cache()
        m.fix_stereo()
        m.flush_cache()
    return m, fallback


def norm(v):
    if isinstance(v, dict):
        return tuple(sorted(((norm(k), norm(x)) for k, x in v.items()), key=repr))
    if isinstance(v, (set, frozenset)):
        return tuple(sorted((norm(x) for x in v), key=repr))
    if isinstance(v, (list, tuple)):
        return tuple(norm(x) for x in v)
    if isinstance(v, float):
        return round(v, 6)
    if hasattr(v, 'tolist'):
        return norm(v.tolist())
    return v


def _atom_labels(m):
    return tuple((n, a.implicit_hydrogens, a.explicit_hydrogens, a.neighbors, a.heteroatoms, a.hybridization,
                  bool(a.in_ring), tuple(sorted(a.ring_sizes)), a.stereo) for n, a in m.atoms())


def _bond_labels(m):
    return tuple((n, k, b.order, bool(b.in_ring), b.stereo) for n, k, b in m.bonds())


READERS = [
    ('str', lambda m: str(m)),
    ('sssr', lambda m: list(m.sssr)),
    ('atoms_order', lambda m: m.atoms_order),
    ('connected_components', lambda m: [set(c) for c in m.connected_components]),
    ('bonds_count', lambda m: m.bonds_count),
    ('brutto', lambda m: m.brutto),
    ('chiral', lambda m: (m.chiral_tetrahedrons, m.chiral_cis_trans, m.chiral_allenes)),
    ('stereogenic_tetrahedrons', lambda m: m.stereogenic_tetrahedrons),
    ('atoms_rings_sizes', lambda m: m.atoms_rings_sizes),
    ('hash', lambda m: hash(m)),
    ('smiles_atoms_order', lambda m: m.smiles_atoms_order),
    ('molecular_mass', lambda m: m.molecular_mass),
    ('fmt_h', lambda m: format(m, 'h')),
    ('rings_count', lambda m: m.rings_count),
    ('molecular_charge', lambda m: int(m)),
    ('is_radical', lambda m: m.is_radical),
    ('tetrahedrons', lambda m: m.tetrahedrons),
    ('cumulenes', lambda m: m.cumulenes),
    ('stereogenic_allenes', lambda m: m.stereogenic_allenes),
    ('stereogenic_cis_trans', lambda m: m.stereogenic_cis_trans),
    ('chiral_morgan', lambda m: m._chiral_morgan),
    ('not_special_connectivity', lambda m: m.not_special_connectivity),
    ('skin_graph', lambda m: m.skin_graph),
    ('aromatic_rings', lambda m: m.aromatic_rings),
    ('int_adjacency', lambda m: m.int_adjacency),
    ('adjacency_matrix', lambda m: m.adjacency_matrix(True)),
    ('len', lambda m: (len(m), m.atoms_count, list(m))),
    ('atom_labels', _atom_labels),
    ('bond_labels', _bond_labels),
]
RD = dict(READERS)
ONE = ['str', 'sssr', 'atoms_order', 'connected_components', 'bonds_count', 'brutto', 'chiral', 'stereogenic_tetrahedrons',
       'atoms_rings_sizes', 'hash', 'smiles_atoms_order', 'molecular_mass']
PATTERNS = ['ALL', 'REV', 'NONE'] + ['ONE:' + k for k in ONE]
PATTERNS_QUICK = ['ALL', 'NONE'] + ['ONE:' + k for k in ONE[:9] + ['smiles_atoms_order']]


def read(m, names):
    out = {}
    for k in names:
        try:
            out[k] = norm(RD[k](m))
        except Exception as e:
            out[k] = ('EXC', type(e).__name__)
    return out


GRAPH_READS = ['sssr', 'rings_count', 'atoms_rings_sizes', 'connected_components', 'bonds_count', 'not_special_connectivity', 'skin_graph',
               'int_adjacency']


def touch(m, names):
    """populate caches exactly like read() but without normalising the values"""
    for k in names:
        try:
            RD[k](m)
        except Exception:
            pass


def pattern_names(pat):
    if pat == 'ALL':
        return [k for k, _ in READERS]
    if pat == 'REV':
        return [k for k, _ in READERS][::-1]
    if pat == 'NONE':
        return []
    return [pat[4:]]


def diff(got, exp):
    for k in got:
        if got[k] != exp[k]:
            return k
    return None


# ----------------------------------------------------------------------------- events

FRAGS = {'C': ([(1, 'C')], []), 'OO': ([(1, 'O'), (2, 'O')], [(1, 2, 1)])}


def enabled(m, cfg):
    """deterministic, simplest first"""
    ev = []
    atoms = list(m._atoms)
    n = len(atoms)
    bonds = m._bonds
    if n < cfg['maxa']:
        for e in ('C', 'N', 'O'):
            ev.append(('add_atom', e))
    pairs = list(itertools.combinations(atoms, 2))
    for a, b in pairs:
        if b in bonds[a]:
            ev.append(('delete_bond', a, b))
        else:
            for o in (1, 2):
                ev.append(('add_bond', a, b, o))
    for a in atoms:
        ev.append(('delete_atom', a))
    decorated = sum(1 for a in m._atoms.values() if a.charge or a.is_radical)
    for a in atoms:
        at = m._atoms[a]
        for c in (1, -1):
            tgt = 0 if at.charge == c else c
            if tgt == 0 or at.charge or decorated < cfg['maxdec']:
                ev.append(('charge', a, tgt))
        if at.is_radical or decorated < cfg['maxdec']:
            ev.append(('radical', a))
    if n >= 2:
        ev.append(('remap', ((atoms[0], atoms[-1]), (atoms[-1], atoms[0]))))
        ev.append(('remap', ((atoms[0], max(atoms) + 1),)))
    if n >= 3:
        ev.append(('remap', ((atoms[0], atoms[1]), (atoms[1], atoms[0]))))
    ev.append(('copy',))
    if n >= 2:
        for a in atoms:
            ev.append(('substructure', a))
    if n + 1 <= cfg['maxa']:
        ev.append(('union', 'C'))
        ev.append(('iunion', 'C'))
        if max(atoms, default=0) < 100:
            ev.append(('union2', 'C'))
    if n + 2 <= cfg['maxa']:
        ev.append(('union', 'OO'))
        ev.append(('iunion', 'OO'))
        if max(atoms, default=0) < 100:
            ev.append(('union2', 'OO'))
    ev.append(('clean_stereo',))
    for a in atoms:
        if len(bonds[a]) >= 3 and m._atoms[a].stereo is None:
            ev.append(('atom_stereo', a, True))
            ev.append(('atom_stereo', a, False))
    # cis/trans label through the public call, the double bond addressed from either end
    for a in atoms:
        for b, bd in bonds[a].items():
            if bd.order == 2 and a < b and bd.stereo is None and len(bonds[a]) >= 2 and len(bonds[b]) >= 2:
                a1 = next(x for x in bonds[a] if x != b)
                b1 = next(x for x in bonds[b] if x != a)
                ev.append(('ct_stereo', a, b, a1, b1, True))
                ev.append(('ct_stereo', b, a, b1, a1, False))
    # transactions: first enabled event of each simple kind
    first = {}
    for e in ev:
        if e[0] in ('add_atom', 'add_bond', 'delete_bond', 'delete_atom', 'charge', 'radical', 'remap'):
            first.setdefault(e[0], e)
    last_attr = [e for e in ev if e[0] in ('charge', 'radical')][-1:]
    simple = list(first.values())
    for e in simple:
        ev.append(('tx_fail', (e,)))
    for e in simple:
        if e[0] not in ('charge', 'radical'):
            ev.append(('tx', (e,)))
    structural = [e for e in simple if e[0] in ('add_atom', 'add_bond', 'delete_bond', 'delete_atom')]
    attr = [e for e in simple if e[0] in ('charge', 'radical')] + last_attr
    for s in structural:
        for t in attr:
            if s[0] == 'delete_atom' and t[1] == s[1]:
                continue
            ev.append(('tx', (s, t)))
            ev.append(('tx', (t, s)))
            ev.append(('tx_fail', (s, t)))
    for s in structural:
        ev.append(('tx_fail', (s, ('read',))))
        ev.append(('tx_fail', (('read',), s, ('read',))))
        ev.append(('tx', (s, ('read',))))
        ev.append(('tx', (('read',), s)))
    for kind in () if not atoms else ('bond_missing', 'dup_atom', 'bond_exists', 'self_loop', 'del_missing_bond', 'del_missing_atom', 'bad_charge',
                 'remap_overlap', 'bad_element'):
        ev.append(('bad', kind))
    return ev


def _inner(m, e):
    k = e[0]
    if k == 'add_atom':
        m.add_atom(e[1])
    elif k == 'add_bond':
        m.add_bond(e[1], e[2], e[3])
    elif k == 'delete_bond':
        m.delete_bond(e[1], e[2])
    elif k == 'delete_atom':
        m.delete_atom(e[1])
    elif k == 'charge':
        m.atom(e[1]).charge = e[2]
    elif k == 'radical':
        m.atom(e[1]).is_radical = not m.atom(e[1]).is_radical
    elif k == 'remap':
        m.remap(dict(e[1]))
    elif k == 'read':  # derived values that depend on the graph only may be read inside an open transaction
        touch(m, GRAPH_READS)
    else:
        raise RuntimeError('unknown inner event %r' % (e,))


def frag(name, offset=0):
    from .. import mk
    atoms, bonds = FRAGS[name]
    if offset:   # numbers disjoint from every seed: union takes its no-renumbering path
        atoms = [(a[0] + offset,) + tuple(a[1:]) for a in atoms]
        bonds = [(x + offset, y + offset, o) for x, y, o in bonds]
    return mk.build(atoms, bonds)


def apply(m, e):
    """returns (object to continue with, expectation) ; expectation in {'changed', 'unchanged'}"""
    k = e[0]
    if k in ('add_atom', 'add_bond', 'delete_bond', 'delete_atom', 'remap'):
        _inner(m, e)
        return m, 'changed'
    if k in ('charge', 'radical'):
        with m:
            _inner(m, e)
        return m, 'changed'
    if k == 'tx':
        with m:
            for x in e[1]:
                _inner(m, x)
        return m, 'changed'
    if k == 'tx_fail':
        try:
            with m:
                for x in e[1]:
                    _inner(m, x)
                raise Boom()
        except Boom:
            pass
        return m, 'unchanged'
    if k == 'bad':
        atoms = list(m._atoms)
        a = atoms[0]
        kind = e[1]
        try:
            if kind == 'bond_missing':
                m.add_bond(a, max(atoms) + 7, 1)
            elif kind == 'dup_atom':
                m.add_atom('C', a)
            elif kind == 'bond_exists':
                b = next(iter(m._bonds[a]), None)
                if b is None:
                    return m, 'unchanged'
                m.add_bond(a, b, 1)
            elif kind == 'self_loop':
                m.add_bond(a, a, 1)
            elif kind == 'del_missing_bond':
                b = next((x for x in atoms if x != a and x not in m._bonds[a]), max(atoms) + 7)
                m.delete_bond(a, b)
            elif kind == 'del_missing_atom':
                m.delete_atom(max(atoms) + 7)
            elif kind == 'bad_charge':
                with m:
                    m.atom(a).is_radical = not m.atom(a).is_radical
                    m.atom(a).charge = 9
            elif kind == 'remap_overlap':
                if len(atoms) < 2:
                    return m, 'unchanged'
                m.remap({a: atoms[1]})
            elif kind == 'bad_element':
                m.add_atom('Xx')
        except Boom:
            raise
        except Exception:
            return m, 'unchanged'
        raise AssertionError('call that must fail did not raise: %r' % (e,))
    if k == 'copy':
        return m.copy(), 'same'
    if k == 'substructure':
        return m.substructure([x for x in m if x != e[1]]), 'new'
    if k == 'union':
        return m | frag(e[1]), 'new'
    if k == 'union2':
        return m | frag(e[1], 100), 'new'
    if k == 'iunion':
        m |= frag(e[1])
        return m, 'changed'
    if k == 'clean_stereo':
        m.clean_stereo()
        return m, 'changed'
    if k == 'atom_stereo':
        from chython.exceptions import NotChiral, IsChiral
        try:
            m.add_atom_stereo(e[1], tuple(x for x in m._bonds[e[1]])[:4], e[2])
        except (NotChiral, IsChiral, KeyError):
            return m, 'unchanged'
        return m, 'changed'
    if k == 'ct_stereo':
        from chython.exceptions import NotChiral, IsChiral
        try:
            m.add_cis_trans_stereo(e[1], e[2], e[3], e[4], e[5])
        except (NotChiral, IsChiral, KeyError):
            return m, 'unchanged'
        return m, 'changed'
    raise RuntimeError('unknown event %r' % (e,))


I4DEPTH = [1]  # the exhaustive independence check runs for copy/substructure/union events at history length < I4DEPTH
SIMPLE_FOR_I4 = ('add_atom', 'add_bond', 'delete_bond', 'delete_atom', 'charge', 'radical', 'remap', 'iunion', 'clean_stereo')


# ----------------------------------------------------------------------------- state key

def state_key(m):
    ch = getattr(m, '_changed', 'MISSING')
    return (raw(m), tuple(m._bonds), ch if ch is None or ch == 'MISSING' else tuple(sorted(ch)), getattr(m, '_backup', 'MISSING') is None,
            tuple(sorted(m.__dict__)))


def khash(key):
    return hashlib.sha1(repr(key).encode()).hexdigest()[:20]


def replay_history(seedname, hist):
    m = _seed(seedname)
    touch(m, pattern_names('ALL'))
    for e, pat in hist:
        m, _ = apply(m, e)
        touch(m, pattern_names(pat))
    return m


_REF = {}  # raw -> expected derived values of the rebuilt molecule (pure function of raw; per-process memo)


def judge_state(m, patvals):
    """I1 + I2 on object m (destructive: warms every cache). returns (reason|None)"""
    r = check_adjacency(m)
    if r:
        return r
    rw = raw(m)
    names = pattern_names('ALL')
    exp = _REF.get(rw)
    if exp is None:
        try:
            ref, fb = rebuild(rw)
        except Exception as e:
            return 'rebuild raised %s' % type(e).__name__
        exp = read(ref, names)
        if len(_REF) > 200000:
            _REF.clear()
        _REF[rw] = exp
    if patvals:
        d = diff(patvals, exp)
        if d:
            return 'I2 stale-or-wrong %s%s (patterned read)' % (d, _ring_note(m, d, patvals, exp))
    got = read(m, names)
    d = diff(got, exp)
    if d:
        return 'I2 stale-or-wrong %s%s' % (d, _ring_note(m, d, got, exp))
    if raw(m) != rw:
        return 'I2 reading changed raw state'
    return None


def _ring_note(m, d, got, exp):
    """classifies one situation independently: the only difference are ring-size marks, and the minimum cycle basis of the graph is not unique
    (the marks then belong to another, equally minimal, basis than the ring list)"""
    if d != 'atom_labels':
        return ''
    try:
        a, b = got[d], exp[d]
        if len(a) != len(b) or any(x[:7] + x[8:] != y[:7] + y[8:] for x, y in zip(a, b)):
            return ''
        from ..oracle import cycles
        adj = {n: {k for k, bd in ms.items() if bd.order != 8} for n, ms in m._bonds.items()}
        mu = cycles.cyclomatic(adj)
        rel, _ = cycles.relevant_count(adj)
        if mu and rel != mu:
            return ' [ring-size marks of a non-unique minimum cycle basis]'
    except Exception:
        pass
    return ''


def transition(seedname, hist, e, pat, parent_kh, i4depth=None):
    """run one transition; returns (keyhash|None, reason|None, info)"""
    m = replay_history(seedname, hist)
    if parent_kh is not None and khash(state_key(m)) != parent_kh:
        raise RuntimeError('divergence while replaying prefix %r' % (hist,))
    pre_raw = raw(m)
    pre_full = None
    if e[0] in ('tx_fail', 'bad', 'copy', 'substructure', 'union', 'union2'):
        pre_full = read(m, pattern_names('ALL'))  # caches are warm already (default pattern) or get warm: recorded in key below
    src = m
    try:
        m2, expect = apply(m, e)
    except AssertionError as x:
        return None, 'I3 %s' % x, None
    except Exception as x:
        import traceback
        tb = traceback.extract_tb(x.__traceback__)
        where = tb[-1].name if tb else '?'
        return None, 'event raised %s in %s on seed %s' % (type(x).__name__, where, seedname), None
    if expect == 'unchanged':
        if raw(m2) != pre_raw:
            return None, 'I3 raw state changed by failing call/transaction', None
        if getattr(m2, '_backup', None) is not None:
            return None, 'I3 _backup left set', None
    patvals = read(m2, pattern_names(pat))
    key = state_key(m2)
    kh = khash(key)
    r = judge_state(m2, patvals)
    if r:
        return None, r, None
    if m2 is src and expect == 'changed' and e[0] not in NO_I6 and not (e[0] == 'tx' and any(x[0] in NO_I6 for x in e[1])) and (any(a[5] is not None for a in pre_raw[0]) or any(st is not None for _, ks in pre_raw[1] for _, _, st in ks)):
        r = label_persistence(replay_history(seedname, hist), m2)
        if r:
            return None, r + ' (%s)' % e[0], None
    if expect == 'unchanged' and pre_full is not None:
        now = read(m2, pattern_names('ALL'))
        d = diff(now, pre_full)
        if d:
            return None, 'I3 derived %s differs from pre-transaction value' % d, None
    if expect in ('same', 'new') and m2 is not src:
        # I5: a copy / substructure / union denotes the same configuration on every labelled centre whose neighbourhood it retains
        # (signs relative to ascending neighbour numbers, so the stored neighbour order of either object does not enter)
        r = same_configuration(src, m2)
        if r:
            return None, r, None
        # I4a: the source is untouched by creating the new object
        if raw(src) != pre_raw or diff(read(src, pattern_names('ALL')), pre_full):
            return None, 'I4 source changed by %s' % e[0], None
        if expect == 'same' and raw(m2) != pre_raw:
            return None, 'I4 copy differs from source', None
        if len(hist) < (I4DEPTH[0] if i4depth is None else i4depth):
            r = independence(seedname, hist, e, pre_raw, pre_full)
            if r:
                return None, r, None
    return kh, None, len(key[0][0])


def same_configuration(src, new):
    from .c02 import stereo_descr
    try:
        d1, d2 = stereo_descr(src), stereo_descr(new)
    except Exception as e:
        return 'I5 configuration descriptor raised %s' % type(e).__name__
    for key, sign in d1.items():
        atoms = [x for x in key[1:] if isinstance(x, int)]
        if any(a not in new._atoms for a in atoms):
            continue
        env = set()
        for a in atoms:
            env |= set(src._bonds[a])
        if any(x not in new._atoms for x in env) or any(set(src._bonds[a]) != set(new._bonds[a]) for a in atoms):
            continue   # a neighbour was cut away: the centre may legitimately lose or keep its label
        if key not in d2:
            if key[0] == 't' and all(set(src._bonds[x]) == set(new._bonds.get(x, ())) for x in src._atoms if x in new._atoms):
                return 'I5 stereo label lost in the new object although nothing was cut away'
            continue
        if d2[key] != sign:
            return 'I5 configuration of a retained centre differs between the source and the new object'
    return None


def _wl_colours(m):
    """stable colour refinement on atoms (element, isotope, charge, radical, hydrogens; bond orders): different colours => constitutionally different atoms"""
    col = {n: hash((a.atomic_number, a.isotope, a.charge, a.is_radical, a.implicit_hydrogens)) for n, a in m._atoms.items()}
    for _ in range(len(col)):
        new = {n: hash((col[n], tuple(sorted((b.order, col[k]) for k, b in m._bonds[n].items())))) for n in col}
        if len(set(new.values())) == len(set(col.values())):
            break
        col = new
    return col


NO_I6 = ('remap', 'clean_stereo', 'atom_stereo', 'ct_stereo', 'copy', 'substructure', 'union', 'union2', 'tx_fail', 'bad', 'iunion')


def label_persistence(pre, post):
    """I6: an in-place edit that leaves a labelled stereo element and all its substituent atoms exactly as they were, and after which the element is
    still stereogenic for a reason that needs no library code (carbon ends, substituents of each end constitutionally different by colour refinement),
    keeps the label and its sign"""
    from .c02 import stereo_descr
    try:
        d1 = stereo_descr(pre)
    except Exception:
        return None
    if not d1:
        return None
    try:
        d2 = stereo_descr(post)
    except Exception as e:
        return 'I6 configuration descriptor raised %s after the edit' % type(e).__name__
    col = _wl_colours(post)
    paths = {}
    for path in pre.stereogenic_cumulenes:
        paths[path[len(path) // 2] if len(path) % 2 else (min(path[0], path[-1]), max(path[0], path[-1]))] = path

    def same_atom(x):
        a, b = pre._atoms[x], post._atoms.get(x)
        return b is not None and (a.atomic_number, a.isotope, a.charge, a.is_radical, a.implicit_hydrogens) == (b.atomic_number, b.isotope, b.charge, b.is_radical, b.implicit_hydrogens)

    def same_nbrs(x):
        return x in post._bonds and {k: b.order for k, b in pre._bonds[x].items()} == {k: b.order for k, b in post._bonds[x].items()}
    for key, sign in d1.items():
        if key[0] == 't':
            core = [key[1]]
            ends = [(key[1], list(pre._bonds[key[1]]))]
        elif key[0] == 'a':
            core = list(paths.get(key[1], ()))
            ends = [(core[0], [x for x in pre._bonds[core[0]] if x != core[1]]), (core[-1], [x for x in pre._bonds[core[-1]] if x != core[-2]])] if core else []
        elif key[0] == 'ct':
            core = list(paths.get((key[1], key[2]), ()))
            ends = [(core[0], [x for x in pre._bonds[core[0]] if x != core[1]]), (core[-1], [x for x in pre._bonds[core[-1]] if x != core[-2]])] if core else []
        else:
            continue
        if not core:
            continue
        env = [x for _, subs in ends for x in subs]
        if not all(same_atom(x) for x in core + env) or not all(same_nbrs(x) for x in core):
            continue
        ok = True
        for c, subs in ends:
            a = post._atoms[c]
            if a.atomic_number != 6 or a.charge or a.is_radical:
                ok = False
            want = 4 if key[0] == 't' else 2
            if len(subs) + (a.implicit_hydrogens or 0) != want or (a.implicit_hydrogens or 0) > 1:
                ok = False
            if len({col[x] for x in subs}) != len(subs):
                ok = False
            if any(post._atoms[x].atomic_number == 1 for x in subs) and (a.implicit_hydrogens or 0):
                ok = False
        if not ok:
            continue
        if key not in d2:
            return 'I6 stereo label of an untouched, still stereogenic %s lost by the edit' % {'t': 'tetrahedral centre', 'a': 'allene', 'ct': 'double bond'}[key[0]]
        if d2[key] != sign:
            return 'I6 configuration of an untouched stereo element changed by the edit'
    return None


def independence(seedname, hist, e, pre_raw, pre_full):
    """I4b: every simple edit of the new object leaves the source unchanged and vice versa; the new object accepts every edit."""
    cfg = {'maxa': 99, 'maxdec': 99}
    m = replay_history(seedname, hist)
    new, _ = apply(m, e)
    evs = [x for x in enabled(new, cfg) if x[0] in SIMPLE_FOR_I4]
    for x in evs:
        src = replay_history(seedname, hist)
        new, _ = apply(src, e)
        try:
            apply(new, x)
        except Exception as ex:
            return 'I4 %s result rejects %s: %s' % (e[0], x[0], type(ex).__name__)
        r = check_adjacency(src)
        if r:
            return 'I4 source: ' + r
        if raw(src) != pre_raw:
            return 'I4 edit %s on %s result changed source raw state' % (x[0], e[0])
        d = diff(read(src, pattern_names('ALL')), pre_full)
        if d:
            return 'I4 edit %s on %s result changed source %s' % (x[0], e[0], d)
    if e[0] in ('union', 'union2'):
        # I4c: the RIGHT operand is as independent of the result as the left one (both numbering paths of union)
        off = 100 if e[0] == 'union2' else 0
        f0 = frag(e[1], off)
        touch(f0, pattern_names('ALL'))
        fraw, ffull = raw(f0), read(f0, pattern_names('ALL'))
        for x in [x for x in enabled(new, cfg) if x[0] in SIMPLE_FOR_I4]:
            src = replay_history(seedname, hist)
            f = frag(e[1], off)
            touch(f, pattern_names('ALL'))
            res = src | f
            try:
                apply(res, x)
            except Exception as ex:
                return 'I4 %s result rejects %s: %s' % (e[0], x[0], type(ex).__name__)
            r = check_adjacency(f)
            if r:
                return 'I4 right operand of union: ' + r
            if raw(f) != fraw:
                return 'I4 edit %s on %s result changed the right operand raw state' % (x[0], e[0])
            d = diff(read(f, pattern_names('ALL')), ffull)
            if d:
                return 'I4 edit %s on %s result changed the right operand %s' % (x[0], e[0], d)
        for x in [x for x in enabled(f0, cfg) if x[0] in SIMPLE_FOR_I4]:
            src = replay_history(seedname, hist)
            f = frag(e[1], off)
            res = src | f
            nraw, nfull = raw(res), read(res, pattern_names('ALL'))
            try:
                apply(f, x)
            except Exception as ex:
                return 'event raised %s' % type(ex).__name__
            if raw(res) != nraw or check_adjacency(res):
                return 'I4 edit %s on the right operand changed %s result raw state' % (x[0], e[0])
            d = diff(read(res, pattern_names('ALL')), nfull)
            if d:
                return 'I4 edit %s on the right operand changed %s result %s' % (x[0], e[0], d)
    evs = [x for x in enabled(m, cfg) if x[0] in SIMPLE_FOR_I4]
    for x in evs:
        src = replay_history(seedname, hist)
        new, _ = apply(src, e)
        nraw = raw(new)
        nfull = read(new, pattern_names('ALL'))
        try:
            apply(src, x)
        except Exception as ex:
            return 'event raised %s' % type(ex).__name__
        if raw(new) != nraw:
            return 'I4 edit %s on source changed %s result raw state' % (x[0], e[0])
        d = diff(read(new, pattern_names('ALL')), nfull)
        if d:
            return 'I4 edit %s on source changed %s result %s' % (x[0], e[0], d)
    return None


# ----------------------------------------------------------------------------- BFS

def expand(item):
    """worker: all transitions out of one state"""
    seedname, hist, ndev, parent_kh, cfg = item
    acc = Acc()
    children = []
    m = replay_history(seedname, hist)
    evs = enabled(m, cfg)
    for e in evs:
        pats = ['ALL']
        if ndev < cfg['devbound']:
            pats = cfg.get('patterns', PATTERNS)
        for pat in pats:
            nd = ndev + (pat != 'ALL')
            acc.transitions += 1
            try:
                kh, reason, natoms = transition(seedname, hist, e, pat, parent_kh, cfg.get('i4depth'))
            except RuntimeError:
                raise
            if reason:
                acc.outcomes['FAIL ' + reason] += 1
                tag = e[0] if e[0] not in ('tx', 'tx_fail') else e[0] + ':' + '+'.join(x[0] for x in e[1])
                acc.fail('%s after %s' % (reason, tag), seed=seedname, history=[list(map(_j, h)) for h in hist], event=_j(e), pattern=pat,
                         reason=reason)
                continue
            acc.outcomes[(e[0], pat.split(':')[0])] += 1
            children.append((hist + ((e, pat),), nd, kh))
    return seedname, children, acc


def _j(x):
    if isinstance(x, tuple):
        return [_j(y) for y in x]
    return x


def _t(x):
    if isinstance(x, list):
        return tuple(_t(y) for y in x)
    return x


def bfs(pmap, seeds, depth, devbound, maxa, maxdec, label, patterns=None):
    acc = Acc()
    cfg = {'maxa': maxa, 'maxdec': maxdec, 'devbound': devbound, 'patterns': patterns or PATTERNS, 'i4depth': I4DEPTH[0]}
    seen = {}
    frontier = []
    for s in seeds:
        m = replay_history(s, ())
        r = judge_state(m, None)
        if not r and s.startswith('smi:'):
            # I0: the rebuilt molecule (public constructor path + labels + fix_stereo) carries the labels of the molecule it was rebuilt from
            from chython import smiles as _smiles
            if raw(_smiles(s[4:])) != raw(m) and sorted(x[5] is not None for x in raw(_smiles(s[4:]))[0]) != sorted(x[5] is not None for x in raw(m)[0]):
                r = 'I0 rebuilding the molecule from its atoms, bonds and labels drops or adds a stereo label'
        if r:
            acc.fail('seed %s: %s' % (s, r), seed=s, history=[], event=None, pattern='ALL', reason=r)
            continue
        kh = khash(state_key(replay_history(s, ())))
        seen[(s, kh)] = 0
        frontier.append((s, (), 0, kh, cfg))
    acc.states = len(seen)
    for d in range(1, depth + 1):
        nxt = []
        for seedname, children, a in pmap(expand, frontier):
            acc.merge(a)
            for hist, nd, kh in children:
                k = (seedname, kh)
                if k in seen and seen[k] <= nd:
                    continue
                new = k not in seen
                seen[k] = nd
                if new:
                    acc.states += 1
                nxt.append((seedname, hist, nd, kh, cfg))
        # stable order, fewer deviations first
        nxt.sort(key=lambda t: (t[2], repr(t[1])))
        acc.info['%s depth %d frontier' % (label, d)] = len(nxt)
        if d == depth:
            for it in nxt[:2]:
                acc.sample({'seed': it[0], 'history': [[_j(e), p] for e, p in it[1]]})
        frontier = nxt
    return acc


def stage_default(pmap, tier, seed):
    I4DEPTH[0] = 2 if tier == 'thorough' else 1
    if tier == 'thorough':
        return bfs(pmap, SEEDS_QUICK, 4, 0, 4, 1, 'dev0')
    return bfs(pmap, SEEDS_QUICK, 3, 0, 4, 1, 'dev0')


def stage_dev1(pmap, tier, seed):
    I4DEPTH[0] = 1
    if tier == 'thorough':
        return bfs(pmap, SEEDS_THOROUGH, 3, 1, 4, 1, 'dev1', patterns=PATTERNS_QUICK)
    return bfs(pmap, SEEDS_QUICK, 2, 1, 4, 1, 'dev1', patterns=PATTERNS_QUICK)


def stage_dev2(pmap, tier, seed):
    I4DEPTH[0] = 1
    return bfs(pmap, ['CC', 'CCO', 'C1CC1', 'CC(N)O@', 'CN~Cu'], 3, 2, 4, 1, 'dev2', patterns=['ALL', 'NONE', 'ONE:str', 'ONE:sssr', 'ONE:atoms_order', 'ONE:connected_components'])


def stage_medium1(pmap, tier, seed):
    I4DEPTH[0] = 0
    return bfs(pmap, SEEDS_MEDIUM if tier == 'thorough' else SEEDS_MEDIUM_QUICK, 1, 1, 99, 3, 'medium dev1', patterns=PATTERNS if tier == 'thorough' else ['ALL', 'NONE', 'ONE:str'])


def stage_medium2(pmap, tier, seed):
    I4DEPTH[0] = 0
    return bfs(pmap, SEEDS_MEDIUM, 2, 0, 99, 3, 'medium dev0')


# ----------------------------------------------------------------------------- split(): parts are the components, nothing re-derived (added after seed C13-h1)
SPLIT_FRAGS = ['CCO', 'Cl', '[Na+]', '[NH4+]', 'c1cc[nH]c1', 'c1ccncc1', 'c1cc[nH+]cc1', 'c1ccoc1', 'c1cnc[nH]1', '[cH-]1cccc1', 'C1=CC=CN1', 'CC([O-])=O', '[CH3]', 'c1ccc2[nH]ccc2c1']


def _atom_fields(a):
    return (a.atomic_number, a.isotope, a.charge, a.is_radical, a.implicit_hydrogens)


def split_case(texts):
    """reason or None: split() of the molecule read from the joined text returns one molecule per component with exactly the atoms (every stored field,
    hydrogens included), numbers and bonds of that component, equal to the fragment read alone, and independent of the source"""
    from chython import smiles
    m = smiles('.'.join(texts))
    before = {n: _atom_fields(a) for n, a in m.atoms()}
    bonds = {frozenset((n, k)): b.order for n, k, b in m.bonds()}
    rw = raw(m)
    parts = m.split()
    if len(parts) != len(texts):
        return 'split: number of parts differs from the number of components'
    if sorted(n for p in parts for n in p) != sorted(before):
        return 'split: atom numbers of the parts are not a partition of the source'
    for p in parts:
        for n, a in p.atoms():
            if _atom_fields(a) != before[n]:
                return 'split: atom fields of a part differ from the source (element, isotope, charge, radical, hydrogens)'
        pb = {frozenset((n, k)): b.order for n, k, b in p.bonds()}
        if pb != {k: v for k, v in bonds.items() if k <= set(p)}:
            return 'split: bonds of a part differ from the source'
        r = check_adjacency(p)
        if r:
            return 'split: ' + r
    if sorted(str(p) for p in parts) != sorted(str(smiles(t)) for t in texts):
        return 'split: a part differs from the fragment read alone'
    # independence: editing a part leaves the source alone, and the part stays editable
    p = parts[0]
    p.add_atom('F')
    str(p)
    if raw(m) != rw or {n: _atom_fields(a) for n, a in m.atoms()} != before:
        return 'split: editing a part changed the source'
    return None


def run_split(shard):
    acc = Acc()
    k, nsh = shard
    i = 0
    for L in (2, 3):
        for texts in itertools.product(SPLIT_FRAGS, repeat=L):
            i += 1
            if i % nsh != k:
                continue
            acc.states += 1
            acc.transitions += 2
            try:
                r = split_case(texts)
            except Exception as e:
                r = 'split: raised %s' % type(e).__name__
            if r:
                acc.fail(r, split_case=list(texts))
                acc.outcomes['FAIL ' + r] += 1
            else:
                acc.outcomes[('ok', L)] += 1
    if k == 0:
        acc.sample({'fragments': SPLIT_FRAGS, 'molecules': 'every ordered pair and triple'})
    return acc


def plan(tier, seed):
    if tier == 'thorough':
        return [Stage('BFS default reads depth 4', stage_default, None, 'all histories <=4 events, <=4 atoms, <=1 decorated atom, all caches read after every event'),
                Stage('BFS <=1 read deviation depth 3', stage_dev1, None, 'all histories <=3 events, 11 seeds, with <=1 non-default read pattern (none/exactly-one-of-12)'),
                Stage('BFS <=2 read deviations depth 3', stage_dev2, None, 'all histories <=3 events on 5 seeds with <=2 non-default read patterns (none / one of str, sssr, atoms_order, components)'),
                Stage('medium seeds: every event, <=1 read deviation', stage_medium1, None, 'every enabled event at every position of 15 molecules of 5-10 atoms (rings, stereo, zwitterion, metal) x every read pattern'),
                Stage('medium seeds: every pair of events', stage_medium2, None, 'all histories of 2 events on the 15 medium seeds, all caches read after every event'),
                Stage('split(): parts are the components', run_split, [(k, 16) for k in range(16)], 'every ordered pair and triple of 14 fragments (aromatic NH, charged aromatic, radicals, ions): parts carry every stored field, equal the fragment read alone, independent of the source')]
    return [Stage('BFS default reads depth 3', stage_default, None, 'all histories <=3 events, <=4 atoms, <=1 decorated atom, all caches read after every event'),
            Stage('BFS <=1 read deviation depth 2', stage_dev1, None, 'all histories <=2 events, <=4 atoms, with <=1 non-default read pattern (none/exactly-one-of-10)'),
            Stage('medium seeds: every event, <=1 read deviation', stage_medium1, None, 'every enabled event at every position of %d molecules of 5-8 atoms (Kekule ring, stereocentre, diene, bicycle, zwitterion, ring stereocentre, two rings, allene) x read patterns all / none / str only; labels of untouched, still stereogenic elements persist (I6)' % len(SEEDS_MEDIUM_QUICK)),
            Stage('split(): parts are the components', run_split, [(k, 16) for k in range(16)], 'every ordered pair and triple of 14 fragments (aromatic NH, charged aromatic, radicals, ions): parts carry every stored field, equal the fragment read alone, independent of the source')]


def replay(rec):
    if rec.get('split_case'):
        try:
            r = split_case(tuple(rec['split_case']))
        except Exception as e:
            r = 'split: raised %s' % type(e).__name__
        return [{'key': rec['key'], 'reason': r}] if r else []
    hist = tuple((_t(e), p) for e, p in [(h[0], h[1]) for h in rec['history']])
    if rec.get('event') is None:
        m = replay_history(rec['seed'], ())
        r = judge_state(m, None)
        if not r and rec['seed'].startswith('smi:'):
            from chython import smiles as _smiles
            if sorted(x[5] is not None for x in raw(_smiles(rec['seed'][4:]))[0]) != sorted(x[5] is not None for x in raw(m)[0]):
                r = 'I0'
        return [{'key': rec['key'], 'reason': r}] if r else []
    kh, reason, _ = transition(rec['seed'], hist, _t(rec['event']), rec['pattern'], None, 2)
    return [{'key': rec['key'], 'reason': reason}] if reason else []
