"""C05 -- Kekule and aromatic forms describe the same molecule; conversions are stable and numbering independent."""
from ..core import Acc, Stage
from ..scope import molecules as M, graphs, aromatics
from ..oracle import cycles

META = {
    'technique': 'bounded exhaustive enumeration of a ring-system family x renumbering family on the real kekule/thiele code, judged by relations the property states (conservation, idempotence, round trip, single aromatic form, equivariance)',
    'rule': 'one state per (Kekule-form input, numbering); transitions = conversion calls (thiele, kekule, enumerate_kekule, repeated calls)',
    'assumptions': ['inputs are Kekule forms so that per-atom hydrogens are defined before any conversion',
                    'per-atom hydrogen conservation is decided with fix_tautomers=False; the default call is compared against it (known finding when it moves a ring NH)'],
}

KF_TAUT = 'default thiele(fix_tautomers=True) moves a ring-NH hydrogen (per-atom H differs from fix_tautomers=False result)'


def snap(m):
    atoms = tuple((n, a.atomic_symbol, a.isotope, a.charge, a.is_radical, a.implicit_hydrogens) for n, a in m.atoms())
    bonds = tuple(sorted((min(n, k), max(n, k), b.order) for n, k, b in m.bonds()))
    return atoms, bonds


def conserved(a, b, per_atom_h=True):
    """a, b: snaps. connectivity, element/isotope/charge/radical per atom, hydrogens"""
    if [x[:5] for x in a[0]] != [x[:5] for x in b[0]]:
        return 'atoms/charges/radicals changed'
    if [(x, y) for x, y, _ in a[1]] != [(x, y) for x, y, _ in b[1]]:
        return 'connectivity changed'
    ha, hb = [x[5] for x in a[0]], [x[5] for x in b[0]]
    if None in hb:
        return 'hydrogen count unknown after conversion'
    if per_atom_h and ha != hb:
        return 'per-atom hydrogens changed'
    if sum(ha) != sum(hb):
        return 'total hydrogens (formula) changed'
    return None


def four_ring_gap(m):
    adj = {n: set(m._bonds[n]) for n in m}
    for r in m.sssr:
        if len(r) == 4 and sum(1 for n in r if m.atom(n).hybridization in (2, 4) or any(b.order in (2, 4) for b in m._bonds[n].values())) >= 2:
            return True
    return False


def check(acc, m0, tag, bad, enum_limit=64):
    """m0: Kekule-form molecule"""
    from chython.exceptions import InvalidAromaticRing
    if m0.check_valence():
        acc.ood['input not valence-valid'] += 1
        return None
    k0 = snap(m0)
    brutto0 = m0.brutto
    # thiele without tautomer fixing
    t = m0.copy()
    acc.transitions += 1
    try:
        t.thiele(fix_tautomers=False)
    except Exception as e:
        bad('thiele raised %s' % type(e).__name__)
        return None
    ts = snap(t)
    r = conserved(k0, ts)
    if r:
        bad('thiele: ' + r)
        return None
    if any(o not in (1, 2, 3, 4, 8) for *_, o in ts[1]):
        bad('thiele: illegal bond order')
    # default thiele
    td = m0.copy()
    acc.transitions += 1
    try:
        td.thiele()
    except Exception as e:
        bad('thiele (default) raised %s' % type(e).__name__)
        return None
    tds = snap(td)
    r = conserved(k0, tds, per_atom_h=False)
    if r:
        bad('thiele (default): ' + r)
    elif [x[5] for x in tds[0]] != [x[5] for x in k0[0]]:
        acc.fail('%s :: %s' % (KF_TAUT, tag), mol=tag)
    if tds[1] != ts[1] and [x[5] for x in tds[0]] == [x[5] for x in k0[0]]:
        bad('thiele default and fix_tautomers=False give different bonds without moving a hydrogen')
    aromatic = any(o == 4 for *_, o in ts[1])
    acc.outcomes['aromatic' if aromatic else 'non-aromatic'] += 1
    # idempotence of thiele (structure)
    t2 = t.copy()
    acc.transitions += 1
    t2.thiele(fix_tautomers=False)
    if snap(t2) != ts:
        bad('second thiele changes the structure')
    # kekule of the aromatic form
    k = t.copy()
    acc.transitions += 1
    try:
        k.kekule()
    except Exception as e:
        bad('kekule of the aromatic form raised %s' % type(e).__name__)
        return t
    ks = snap(k)
    r = conserved(k0, ks)
    if r:
        bad('kekule: ' + r)
        return t
    if any(o not in (1, 2, 3, 8) for *_, o in ks[1]):
        bad('kekule result has a non-localised bond')
    if k.check_valence():
        bad('kekule result has a valence error')
    if k.brutto != brutto0:
        bad('formula changed')
    k2 = k.copy()
    acc.transitions += 1
    k2.kekule()
    if snap(k2) != ks:
        bad('second kekule changes the structure')
    # thiele(kekule(t)) == t
    tk = k.copy()
    acc.transitions += 1
    tk.thiele(fix_tautomers=False)
    if snap(tk) != ts:
        bad('thiele(kekule(t)) differs from t')
    # enumerated Kekule forms
    if aromatic:
        if four_ring_gap(t):
            acc.ood['unsaturated four-membered ring: enumerate clause not claimed'] += 1
        else:
            forms = []
            try:
                for i, f in enumerate(t.enumerate_kekule()):
                    forms.append(f)
                    if i + 1 >= enum_limit:
                        break
            except Exception as e:
                bad('enumerate_kekule raised %s' % type(e).__name__)
                forms = None
            if forms is not None:
                if not forms:
                    bad('enumerate_kekule yields no form')
                seen = set()
                for f in forms:
                    acc.transitions += 2
                    fs = snap(f)
                    r = conserved(k0, fs)
                    if r:
                        bad('enumerated Kekule form: ' + r)
                        break
                    if any(o not in (1, 2, 3, 8) for *_, o in fs[1]) or f.check_valence():
                        bad('enumerated Kekule form is not a valid localised structure')
                        break
                    if fs[1] in seen:
                        bad('enumerate_kekule yields a duplicate form')
                        break
                    seen.add(fs[1])
                    ft = f.copy()
                    ft.thiele(fix_tautomers=False)
                    if snap(ft) != ts:
                        bad('an enumerated Kekule form aromatises to a different aromatic form')
                        break
                if ks[1] not in seen and len(forms) < enum_limit:
                    bad('kekule() result is not among the enumerated forms')
    return t


def run_family(shard):
    from chython import smiles
    k, nsh, tier = shard
    acc = Acc()
    fam = aromatics.family(tier)
    for i, s in enumerate(fam):
        if i % nsh != k:
            continue
        m = smiles(s)
        base = None
        nums = list(m)
        perms = graphs.gen_perms(nums)
        if tier == 'quick':
            perms = perms[:: max(1, len(perms) // 10)]
        for pi, p in enumerate(perms):
            acc.states += 1
            mm = m.copy()
            mm.remap(p)
            # also vary insertion order: rebuild through substructure of a permuted atom list is not order changing; use remap only

            def bad(what, **d):
                acc.fail('%s :: %s' % (what, s), mol=s, perm=[p[x] for x in nums], **d)
                acc.outcomes['FAIL ' + what] += 1
            t = check(acc, mm, s, bad)
            if t is None:
                break
            inv = {v: kk for kk, v in p.items()}
            # equivariance is judged on the structure mapped back to the original numbers (canonical strings are C01's business)
            sig = (tuple(sorted((inv[n], a.implicit_hydrogens) for n, a in t.atoms())),
                   tuple(sorted((min(inv[x], inv[y]), max(inv[x], inv[y]), b.order) for x, y, b in t.bonds())))
            if base is None:
                base = sig
                if any(b.order == 4 for *_, b in t.bonds()):
                    from rdkit import Chem
                    rd = Chem.MolFromSmiles(s)
                    text_clause(acc, t, m.brutto, s, bad, rd)
            elif sig != base:
                bad('aromatic form depends on atom numbering')
                break
        if i < 3:
            acc.sample({'kekule_smiles': s, 'renumberings': len(perms)})
    return acc


def text_clause(acc, t, ref_brutto, tag, bad, rd=None):
    """aromatic SMILES text (hydrogens on aromatic hetero atoms implicit in the text) -> parse -> kekule(): same molecule"""
    from chython import smiles
    from chython.exceptions import InvalidAromaticRing
    texts = [('chython', str(t)), ('chython-A', format(t, 'A'))]
    if rd is not None:
        from rdkit import Chem
        seen = set()
        for i in range(rd.GetNumAtoms()):
            try:
                x = Chem.MolToSmiles(rd, rootedAtAtom=i, canonical=False)
            except Exception:
                continue
            if x not in seen:
                seen.add(x)
                texts.append(('rdkit-root%d' % i, x))
    ref = str(t)
    for src, txt in texts:
        acc.transitions += 1
        try:
            m = smiles(txt)
            m.kekule()
        except InvalidAromaticRing:
            if src.startswith('rdkit'):
                acc.ood['rdkit-aromatic text outside chython aromaticity model'] += 1
                continue
            bad('kekule of the library\'s own aromatic SMILES raised InvalidAromaticRing', text=txt)
            return
        except Exception as e:
            bad('reading aromatic SMILES raised %s' % type(e).__name__, text=txt)
            return
        if m.check_valence():
            bad('kekule of aromatic SMILES text leaves a valence error', text=txt, source=src)
            return
        if m.brutto != ref_brutto or int(m) != int(t):
            bad('kekule of aromatic SMILES text changes the formula', text=txt, source=src, got=m.brutto, expected=ref_brutto)
            return
        m.thiele(fix_tautomers=False)
        if str(m) != ref and not src.startswith('rdkit'):
            bad('aromatic SMILES text does not read back to the same aromatic form', text=txt, source=src, got=str(m), expected=ref)
            return


def run_generic(shard):
    k, nsh, tier = shard
    acc = Acc()
    from ..oracle import rdk
    md = 2 if tier == 'quick' else 3
    for i, (tag, spec) in enumerate(aromatics.generic(md, ('5', '6', '5-6', '6-6', '5-5') if tier == 'quick' else ('5', '6', '7', '5-6', '6-6', '5-5'))):
        if i % nsh != k:
            continue
        m = M.to_chython(spec)
        if m.check_valence():
            acc.ood['input not valence-valid'] += 1
            continue
        nums = list(m)
        perms = graphs.gen_perms(nums)
        perms = perms[:: max(1, len(perms) // (3 if tier == 'quick' else 8))]
        base = None
        for pi, p in enumerate(perms):
            acc.states += 1
            mm = m.copy()
            mm.remap(p)

            def bad(what, **d):
                acc.fail('%s :: %s' % (what, tag), mol=tag, perm=[p[x] for x in nums], **d)
                acc.outcomes['FAIL ' + what] += 1
            t = check(acc, mm, tag, bad)
            if t is None:
                break
            inv = {v: kk for kk, v in p.items()}
            sig = (tuple(sorted((inv[n], a.implicit_hydrogens) for n, a in t.atoms())),
                   tuple(sorted((min(inv[x], inv[y]), max(inv[x], inv[y]), b.order) for x, y, b in t.bonds())))
            if base is None:
                base = sig
                if any(b.order == 4 for *_, b in t.bonds()):
                    rd = rdk.from_spec(spec)
                    text_clause(acc, t, m.brutto, tag, bad, rd)
            elif sig != base:
                bad('aromatic form depends on atom numbering')
                break
        if i < 2:
            acc.sample({'generic': tag})
    return acc


def run_corpus(shard):
    from chython import smiles
    k, nsh, tier = shard
    acc = Acc()
    rows = M.corpus(stride=4 if tier == 'quick' else 1)
    for i, s in enumerate(rows):
        if i % nsh != k:
            continue
        m = smiles(s)
        try:
            m.kekule()
        except Exception as e:
            acc.fail('kekule of a corpus molecule raised %s :: %s' % (type(e).__name__, s), mol=s)
            continue
        nums = list(m)
        perms = graphs.gen_perms(nums)
        perms = [perms[0], perms[1], perms[len(perms) // 2]] if tier == 'quick' else perms[:: max(1, len(perms) // 6)]
        base = None
        for p in perms:
            acc.states += 1
            mm = m.copy()
            mm.remap(p)

            def bad(what, **d):
                acc.fail('%s :: %s' % (what, s), mol=s, perm=[p[x] for x in nums], **d)
                acc.outcomes['FAIL ' + what] += 1
            t = check(acc, mm, s, bad, enum_limit=24)
            if t is None:
                break
            inv = {v: kk for kk, v in p.items()}
            sig = (tuple(sorted((inv[n], a.implicit_hydrogens) for n, a in t.atoms())),
                   tuple(sorted((min(inv[x], inv[y]), max(inv[x], inv[y]), b.order) for x, y, b in t.bonds())))
            if base is None:
                base = sig
            elif sig != base:
                bad('aromatic form depends on atom numbering')
                break
    return acc


# aromatic texts as a person writes them (bond between two aromatic rings left implicit; hypervalent hetero atoms that the library repairs by rule)
# paired with a hand-written Kekule text in the SAME atom order: the Kekule text is read without any aromatic machinery and supplies hydrogens / net charge
AS_WRITTEN = [
    ('c1ccccc1c1ccccc1', 'C1=CC=CC=C1C1=CC=CC=C1'),
    ('c1ccccc1c1ccncc1', 'C1=CC=CC=C1C1=CC=NC=C1'),
    ('c1ccc(cc1)c1ccc(cc1)c1ccccc1', 'C1=CC=C(C=C1)C1=CC=C(C=C1)C1=CC=CC=C1'),
    ('c1ccc2c(c1)Cc1ccccc12', 'C1=CC=C2C(=C1)CC1=CC=CC=C12'),
    ('c1ccsc1c1cccs1', 'C=1C=CSC=1C1=CC=CS1'),
    ('c1ccccc1n1cccc1', 'C1=CC=CC=C1N1C=CC=C1'),
    ('Cc1ccccc1c1ccccc1O', 'CC1=CC=CC=C1C1=CC=CC=C1O'),
    ('c1ccccc1c1ccccc1c1ccccc1', 'C1=CC=CC=C1C1=CC=CC=C1C1=CC=CC=C1'),
    ('[nH]1cccc1c1ccccn1', 'N1C=CC=C1C1=CC=CC=N1'),
    ('c1ccccc1-c1ccccc1', 'C1=CC=CC=C1-C1=CC=CC=C1'),
    ('O=n1ccccc1', '[O-][N+]1=CC=CC=C1'),
    ('c1ccn(=O)cc1', 'C1=CC=[N+]([O-])C=C1'),
    ('c1cn(=O)ccn1=O', 'C1=C[N+]([O-])=CC=[N+]1[O-]'),
    ('O=n1ccn(=O)cc1', '[O-][N+]1=CC=[N+]([O-])C=C1'),
    ('[O-][s+]1cccc1', '[O-][S+]1C=CC=C1'),
    ('c1cc[s+]([O-])c1c1ccccn1=O', 'C=1C=C[S+]([O-])C=1C1=CC=CC=[N+]1[O-]'),
    ('O=n1ccccc1c1ccc[s+]1[O-]', '[O-][N+]1=CC=CC=C1C1=CC=C[S+]1[O-]'),
    ('c1cn(=O)c2ccccc2n1=O', 'C1=C[N+]([O-])=C2C=CC=CC2=[N+]1[O-]'),
    ('c1cn(=O)ccc1c1ccn(=O)cc1', 'C1=C[N+]([O-])=CC=C1C1=CC=[N+]([O-])C=C1'),
    ('[O-][s+]1cccc1c1ccc[s+]1[O-]', '[O-][S+]1C=CC=C1C1=CC=C[S+]1[O-]'),
    ('c1c[n-]cn1', 'C1=C[N-]C=N1'),
    ('[n-]1cncc1', '[N-]1C=NC=C1'),
    ('c1nc[n-]n1', 'C=1N=C[N-]N=1'),
    ('c1nnn[n-]1', 'C1=NN=N[N-]1'),
    ('n1n[n-]cn1', 'N1=N[N-]C=N1'),
    ('c1ccc2[n-]cnc2c1', 'C1=CC=C2[N-]C=NC2=C1'),
    ('c1ccccc1c1nnn[n-]1', 'C1=CC=CC=C1C1=NN=N[N-]1'),
    ('c1nnnn1C', 'C1=NN=NN1C'),
    ('c1nncnn1', 'C1=NN=CN=N1'),
    ('c1cccc[c]1 |^1:5|', 'C1=CC=CC=[C]1 |^1:5|'),
    ('Cc1ccc[c]c1 |^1:5|', 'CC1=CC=C[C]=C1 |^1:5|'),
    ('c1cc[c]nc1 |^1:3|', 'C1=CC=[C]N=C1 |^1:3|'),
]
FIRST_OPS = ('kekule', 'enumerate_kekule', 'copy+kekule', 'enumerate_kekule, then kekule on the same object')


def _mapped(m, inv):
    return (tuple(sorted((inv[n], a.atomic_symbol, a.charge, a.is_radical, a.implicit_hydrogens) for n, a in m.atoms())),
            tuple(sorted((min(inv[x], inv[y]), max(inv[x], inv[y]), b.order) for x, y, b in m.bonds())))


def first_conversion(acc, text, ktext, perm, op, bad):
    """fresh parse of `text`, renumbered by perm (None = as parsed), `op` is the first conversion the object sees.
    returns the aromatic form mapped back to text order (or None)"""
    from itertools import islice
    from chython import smiles
    ref = smiles(ktext)
    m = smiles(text)
    nums = list(m)
    if [a.atomic_symbol for _, a in ref.atoms()] != [a.atomic_symbol for _, a in m.atoms()] or \
            sorted((min(x, y), max(x, y)) for x, y, _ in ref.bonds()) != sorted((min(x, y), max(x, y)) for x, y, _ in m.bonds()):
        raise RuntimeError('harness: Kekule text %r is not in the atom order of %r' % (ktext, text))
    ref_h = {n: a.implicit_hydrogens for n, a in ref.atoms()}
    ref_q = sum(a.charge for _, a in ref.atoms())
    if perm is not None:
        m.remap(perm)
        inv = {v: k for k, v in perm.items()}
    else:
        inv = {n: n for n in nums}
    # hydrogen counts the aromatic form already carries as parsed (undecided ones are None) are part of the molecule: a conversion may not change them
    for n, a in m.atoms():
        if a.implicit_hydrogens is not None and a.implicit_hydrogens != ref_h[inv[n]]:
            bad('aromatic form as parsed carries a hydrogen count that differs from the Kekule text of the same molecule')
            return None

    def judge(k, what):
        if any(b.order not in (1, 2, 3, 8) for *_, b in k.bonds()):
            bad('%s: result keeps a non-localised bond' % what)
            return False
        if k.check_valence() or any(a.implicit_hydrogens is None for _, a in k.atoms()):
            bad('%s: result has a valence error' % what)
            return False
        if {inv[n]: a.implicit_hydrogens for n, a in k.atoms()} != ref_h:
            bad('%s: per-atom hydrogens differ from the Kekule text of the same molecule' % what)
            return False
        if sum(a.charge for _, a in k.atoms()) != ref_q:
            bad('%s: net charge changed' % what)
            return False
        if sorted((min(inv[x], inv[y]), max(inv[x], inv[y])) for x, y, _ in k.bonds()) != sorted((min(x, y), max(x, y)) for x, y, _ in ref.bonds()):
            bad('%s: connectivity changed' % what)
            return False
        return True

    acc.transitions += 1
    try:
        if op == 'kekule':
            m.kekule()
            ks = [m]
        elif op == 'copy+kekule':
            m = m.copy()
            m.kekule()
            ks = [m]
        elif op == 'enumerate_kekule':
            ks = list(islice(m.enumerate_kekule(), 64))
        else:
            g = m.enumerate_kekule()
            first = next(g, None)
            m.kekule()   # the object itself is converted while the generator is suspended
            ks = ([first] if first is not None else []) + list(islice(g, 63)) + [m]
    except Exception as e:
        bad('%s as the first conversion raised %s' % (op, type(e).__name__))
        return None
    if not ks:
        bad('%s yields no form' % op)
        return None
    out = None
    for k in ks:
        if not judge(k, op):
            return None
        t = k.copy()
        acc.transitions += 1
        t.thiele(fix_tautomers=False)
        sig = _mapped(t, inv)
        if out is None:
            out = sig
        elif sig != out:
            bad('%s: forms of one molecule aromatise to different aromatic forms' % op)
            return None
    return out, (len(ks) if op == 'enumerate_kekule' else None)


def run_as_written(shard):
    k, nsh, tier = shard
    acc = Acc()
    from chython import smiles
    jobs = [(i, op) for i in range(len(AS_WRITTEN)) for op in FIRST_OPS]
    for j, (i, op) in enumerate(jobs):
        if j % nsh != k:
            continue
        text, ktext = AS_WRITTEN[i]
        nums = list(smiles(text))
        perms = [None] + graphs.gen_perms(nums)[1:]
        base = nforms = None
        for p in perms:
            acc.states += 1

            def bad(what, **d):
                acc.fail('%s :: %s' % (what, text), mol=text, ktext=ktext, op=op, perm=None if p is None else [p[x] for x in nums], as_written=True, **d)
                acc.outcomes['FAIL ' + what] += 1
            r = first_conversion(acc, text, ktext, p, op, bad)
            if r is None:
                break
            sig, n = r
            if base is None:
                base, nforms = sig, n
                # every first conversion must end in the aromatic form that plain kekule() gives
                r0 = first_conversion(acc, text, ktext, None, 'kekule', bad)
                if r0 is not None and r0[0] != sig:
                    bad('%s as first conversion gives another aromatic form than kekule()' % op)
                    break
            elif sig != base:
                bad('aromatic form depends on atom numbering (aromatic text as written)')
                break
            elif n != nforms and n is not None and n < 64 and nforms < 64:
                bad('number of enumerated Kekule forms depends on atom numbering')
                break
        acc.outcomes['%s ok' % op] += 1
    return acc


def plan(tier, seed):
    return [Stage('generic ring systems x GEN + aromatic text', run_generic, [(k, 64, tier) for k in range(64)],
                  'mono/bicyclic 5,6,5-6,6-6,5-5 skeletons x <=%d hetero positions (N, N-Me, O, S) x every double-bond matching x GEN subset; aromatic SMILES text from both writers (every RDKit root) read back and kekulised' % (2 if tier == 'quick' else 3)),
            Stage('ring-system family x GEN', run_family, [(k, 64, tier) for k in range(64)],
                  'six/five-membered and fused Kekule ring systems with <=%d hetero/substituent deviations, charged rings, quinoid and special cases x %s renumberings' % (1 if tier == 'quick' else 2, '10 GEN' if tier == 'quick' else 'all GEN')),
            Stage('corpus (Kekule form) x GEN subset', run_corpus, [(k, 64, tier) for k in range(64)], 'lipophilicity.csv stride %d' % (4 if tier == 'quick' else 1)),
            Stage('aromatic text as written x first conversion x GEN', run_as_written, [(k, 16, tier) for k in range(16)],
                  '%d hand-written aromatic texts (implicit bond between aromatic rings; one or two rule-repaired hetero atoms) each paired with a Kekule text in the same atom order x %d first conversions on the freshly parsed object x every GEN renumbering' % (len(AS_WRITTEN), len(FIRST_OPS)))]


def _numbering_dep(spec, rec):
    acc = Acc()
    m = M.to_chython(spec)
    nums = list(m)
    m2 = m.copy()
    m2.remap(dict(zip(nums, rec['perm'])))
    t1 = check(acc, m, 'x', lambda *a, **k: None)
    t2 = check(acc, m2, 'x', lambda *a, **k: None)
    if t1 is None or t2 is None:
        return False
    inv = dict(zip(rec['perm'], nums))
    a = (tuple(sorted((inv[n], x.implicit_hydrogens) for n, x in t2.atoms())), tuple(sorted((min(inv[x], inv[y]), max(inv[x], inv[y]), b.order) for x, y, b in t2.bonds())))
    b = (tuple(sorted((n, x.implicit_hydrogens) for n, x in t1.atoms())), tuple(sorted((min(x, y), max(x, y), bb.order) for x, y, bb in t1.bonds())))
    return a != b


def replay(rec):
    from chython import smiles
    acc = Acc()
    s = rec['mol']
    if rec.get('as_written'):
        nums = list(smiles(s))

        def bad(what, **d):
            acc.fail('%s :: %s' % (what, s))
        p = dict(zip(nums, rec['perm'])) if rec.get('perm') else None
        r = first_conversion(acc, s, rec['ktext'], p, rec['op'], bad)
        r0 = first_conversion(acc, s, rec['ktext'], None, 'kekule', bad)
        if r is not None and r0 is not None:
            if r[0] != r0[0]:
                acc.fail(rec['key'])
            else:
                ri = first_conversion(acc, s, rec['ktext'], None, rec['op'], bad)
                if ri is not None and ri[1] != r[1]:
                    acc.fail(rec['key'])
        return [f for f in acc.fails if f['key'] == rec['key']]
    if ' dbl=' in s:
        for tag, spec in aromatics.generic(3, ('5', '6', '7', '5-6', '6-6', '5-5')):
            if tag == s:
                m = M.to_chython(spec)
                break
        else:
            return []
        from ..oracle import rdk
        nums = list(m)
        if rec.get('perm'):
            m.remap(dict(zip(nums, rec['perm'])))

        def bad(what, **d):
            acc.fail('%s :: %s' % (what, s))
        t = check(acc, m, s, bad)
        if t is not None and any(b.order == 4 for *_, b in t.bonds()):
            text_clause(acc, t, m.brutto, s, bad, rdk.from_spec(spec))
        return [f for f in acc.fails if f['key'] == rec['key']] or ([{'key': rec['key']}] if 'depends on atom numbering' in rec['key'] and _numbering_dep(spec, rec) else [])
    m = smiles(s)
    m.kekule()
    nums = list(m)
    if rec.get('perm'):
        m.remap(dict(zip(nums, rec['perm'])))

    def bad(what, **d):
        acc.fail('%s :: %s' % (what, s))
    t = check(acc, m, s, bad)
    if t is not None and any(b.order == 4 for *_, b in t.bonds()):
        from rdkit import Chem
        m0 = smiles(s)
        m0.kekule()
        t0 = m0.copy()
        t0.thiele(fix_tautomers=False)
        text_clause(acc, t0, m0.brutto, s, bad, Chem.MolFromSmiles(s))
    if 'depends on atom numbering' in rec['key'] and t is not None:
        m2 = smiles(s)
        m2.kekule()
        t2 = check(acc, m2, s, bad)
        if t2 is not None:
            inv = dict(zip(rec['perm'], nums))
            a = (tuple(sorted((inv[n], x.implicit_hydrogens) for n, x in t.atoms())), tuple(sorted((min(inv[x], inv[y]), max(inv[x], inv[y]), b.order) for x, y, b in t.bonds())))
            b = (tuple(sorted((n, x.implicit_hydrogens) for n, x in t2.atoms())), tuple(sorted((min(x, y), max(x, y), bb.order) for x, y, bb in t2.bonds())))
            if a != b:
                acc.fail(rec['key'])
    return [f for f in acc.fails if f['key'] == rec['key']]
