"""C03 -- the SMILES reader builds exactly the molecule the text denotes and rejects the rest with its invalid-SMILES error."""
import itertools

from ..core import Acc, Stage
from ..oracle import smiles_ref as R
from ..scope import molecules as M

META = {
    'technique': 'bounded exhaustive enumeration of token strings, bracket-atom products and single-edit corruptions on the real reader vs an independent recursive-descent reader and RDKit',
    'rule': 'one state per string; membership and (for members) the graph built are compared with the reference; RDKit is a third reader where it parses',
    'assumptions': ['the reference reads the OpenSMILES subset the property lists (vf/oracle/smiles_ref.py); disagreements are classified by feature',
                    'RDKit canonical isomeric SMILES / chirality-aware match for configuration'],
}

SIGMA = ['C', 'N', 'O', 'Cl', 'Br', 'c', 'n', '[NH4+]', '[C@H]', '[13CH3]', '[O-]', '-', '=', '#', ':', '~', '/', '\\', '.', '(', ')', '1', '2', '%10', '%11', '%', '0', '>',
         ' |^1:0|', ' |f:0.1|', '!', ';', ',', '@', '*', 'l', 'r']


def chython_read(s):
    from chython import smiles
    try:
        return 'ok', smiles(s)
    except ValueError as e:
        return 'reject', type(e).__name__
    except Exception as e:
        return 'crash', type(e).__name__


def ref_read(s):
    try:
        return 'ok', R.parse(s)
    except R.Reject as e:
        return 'reject', e.feature or str(e)


def compare_graph(ref, m, cx_rad, offset_atoms=None):
    """ref: R.Ref ; m: chython molecule (atoms in parse order). returns reason or None"""
    atoms = list(m.atoms())
    if len(atoms) != len(ref.atoms):
        return 'atom count %d != %d' % (len(atoms), len(ref.atoms))
    for i, ((n, a), ra) in enumerate(zip(atoms, ref.atoms)):
        if a.atomic_symbol != ra['element']:
            return 'element of atom %d' % i
        if a.isotope != ra['isotope']:
            return 'isotope of atom %d' % i
        if a.charge != ra['charge']:
            return 'charge of atom %d' % i
        if ra['map'] and (a._parsed_mapping or 0) != ra['map'] and n != ra['map']:
            return 'map number of atom %d' % i
        if i in cx_rad and not a.is_radical:
            return 'CXSMILES radical of atom %d' % i
    nums = [n for n, _ in atoms]
    got = {}
    for x, y, b in m.bonds():
        got[frozenset((nums.index(x), nums.index(y)))] = b.order
    exp = {}
    for i, j, o in ref.bonds:
        exp[frozenset((i, j))] = o
    for (i, j) in ref.dirs:   # a / or \\ between two aromatic atoms: single vs aromatic is ambiguous, order not judged
        if ref.atoms[i]['aromatic'] and ref.atoms[j]['aromatic'] and frozenset((i, j)) in got:
            exp[frozenset((i, j))] = got[frozenset((i, j))]
    if got != exp:
        d = [sorted(k) + [got.get(k), exp.get(k)] for k in set(got) | set(exp) if got.get(k) != exp.get(k)][:3]
        return 'bonds differ %s' % d
    return None


def rd_check(s, m):
    """RDKit as third reader: same molecule (incl. configuration) and per-atom H / radical. returns reason or None / 'skip'"""
    from rdkit import Chem
    from ..oracle import rdk
    parts = s.split()
    base = parts[0]
    if '>' in base or '~' in base:
        return 'skip'
    if len(parts) > 2 or (len(parts) == 2 and not R.CX_BLOCK.match(parts[1])):
        return 'skip'   # trailing text that is not a CXSMILES block: readers differ in what they ignore
    rd = Chem.MolFromSmiles(s)
    if rd is None:
        return 'skip'
    if rdk.noncarbon_stereo(rd):
        return 'skip'
    try:
        c = m.copy()
        if any(b.order == 4 for *_, b in c.bonds()):
            c.kekule()
            c.thiele()
        out = str(c)
    except Exception:
        return 'skip'
    if c.check_valence():
        return 'skip'
    rb = Chem.MolFromSmiles(out)
    if rb is None:
        return 'skip'
    if not rdk.same(rd, rb):
        if Chem.MolToSmiles(rd, isomericSmiles=False) != Chem.MolToSmiles(rb, isomericSmiles=False):
            return 'RDKit reads a different constitution: %s vs %s' % (Chem.MolToSmiles(rd), out)
        from ..oracle import knownclass
        if knownclass.ct_closure(out):
            # the comparison goes through the library's own canonical WRITER, which has a recorded defect on this shape (C02/C12 finding)
            return 'skip'
        return 'RDKit reads a different configuration: %s vs %s' % (Chem.MolToSmiles(rd), out)
    if rd.GetNumAtoms() == len(c):
        for ra, (_, a) in zip(rd.GetAtoms(), c.atoms()):
            if ra.GetDegree() and (ra.GetTotalNumHs() != a.implicit_hydrogens or bool(ra.GetNumRadicalElectrons()) != a.is_radical):
                if ra.GetSymbol() in ('C', 'N', 'O', 'S', 'P', 'F', 'Cl', 'Br', 'I', 'B'):
                    return 'RDKit hydrogens/radical of %s%d: %d/%d vs %s/%s' % (ra.GetSymbol(), ra.GetIdx(), ra.GetTotalNumHs(), ra.GetNumRadicalElectrons(), a.implicit_hydrogens, a.is_radical)
    return None


def judge(acc, s, rdkit=True, source='tokens'):
    acc.states += 1
    acc.transitions += 1
    ck, cv = chython_read(s)
    rk, rv = ref_read(s)
    if ck == 'crash':
        acc.fail('reader raises an unrelated exception %s' % cv, text=s, source=source)
        acc.outcomes['crash'] += 1
        return
    if rk == 'reject':
        if ck == 'ok':
            acc.fail('string outside the language yields an object [%s]' % rv, text=s, got=str(cv)[:80], source=source)
        acc.outcomes['both reject' if ck == 'reject' else 'accepted out-of-language'] += 1
        return
    if ck == 'reject':
        if untabulated_isotope(rv):
            acc.ood['isotope not tabulated for the element (element table, C18)'] += 1
            return
        acc.fail('string of the language is rejected [%s]' % feature_of(s), text=s, error=cv, source=source)
        acc.outcomes['rejected in-language'] += 1
        return
    kind, ref, cx = rv
    from chython import ReactionContainer
    if kind == 'rxn':
        if not isinstance(cv, ReactionContainer):
            acc.fail('reaction text read as a molecule', text=s, source=source)
            return
        # fragment grouping: consecutive molecules listed in f: are merged
        exp_roles = []
        idx = 0
        groups = {g[0]: g for g in cx['fragments']}
        skip = set(x for g in cx['fragments'] for x in g[1:])
        atom_off = 0
        roles_ref = []
        for role in ref:
            mols = []
            for mref in role:
                mols.append((idx, mref))
                idx += 1
            roles_ref.append(mols)
        got_counts = (len(cv.reactants), len(cv.reagents), len(cv.products))
        exp_counts = []
        for mols in roles_ref:
            ids = [i for i, _ in mols]
            n = 0
            for i in ids:
                if i in skip and any(i in g and all(x in ids for x in g) for g in cx['fragments']):
                    continue
                n += 1
            exp_counts.append(n)
        if got_counts != tuple(exp_counts):
            acc.fail('reaction roles differ from the text', text=s, got=list(got_counts), expected=exp_counts, source=source)
            return
        if not cx['fragments']:
            k = 0
            for mols, got in zip(roles_ref, (cv.reactants, cv.reagents, cv.products)):
                for (i, mref), gm in zip(mols, got):
                    rad = {x - k for x in cx['radicals'] if k <= x < k + len(mref.atoms)}
                    r = compare_graph(mref, gm, rad)
                    if r:
                        acc.fail('reaction molecule differs from the text: %s' % r.split(' ')[0], text=s, detail=r, source=source)
                        return
                    k += len(mref.atoms)
        acc.outcomes['reaction ok'] += 1
        return
    if isinstance(cv, ReactionContainer):
        acc.fail('molecule text read as a reaction', text=s, source=source)
        return
    if cv._meta and 'chython_implicit_mismatch' in cv._meta:
        # the library itself reports that it replaced a bracket hydrogen count it considers impossible (ignore=True, the default)
        acc.fail('bracket hydrogen count replaced by a calculated one under ignore=True', text=s, got=format(cv, 'h'), source=source)
        acc.outcomes['hydrogens repaired'] += 1
        return
    r = compare_graph(ref, cv, set(cx['radicals']))
    if r:
        acc.fail('molecule differs from the text: %s' % ' '.join(r.split(' ')[:2]), text=s, detail=r, source=source)
        acc.outcomes['graph differs'] += 1
        return
    if rdkit:
        acc.transitions += 1
        r = rd_check(s, cv)
        if r == 'skip':
            acc.ood['third reader not applicable'] += 1
        elif r:
            acc.fail('third reader disagrees: %s' % ' '.join(r.split(' ')[:5]), text=s, detail=r, source=source)
            acc.outcomes['rdkit differs'] += 1
            return
    acc.outcomes['same graph'] += 1


def untabulated_isotope(rv):
    from chython.periodictable import Element
    kind, ref, cx = rv
    refs = [ref] if kind == 'mol' else [m for role in ref for m in role]
    for r in refs:
        for a in r.atoms:
            if a['isotope'] is not None and a['isotope'] not in Element.from_symbol(a['element'])().isotopes_masses:
                return True
    return False


def feature_of(s):
    """coarse feature class of an in-language string that the library rejects (for grouping)"""
    import re
    if re.search(r'\[[^\]]*H0', s):
        return 'hydrogen count H0'
    if re.search(r'\[[^\]]*H[5-9]', s):
        return 'hydrogen count above 4'
    if re.search(r'\[[^\]]*(\+\+\+|---)', s):
        return 'charge written with three or four signs'
    if re.search(r'\[[^\]]*[+-]0', s):
        return 'charge +0'
    if '%' in s:
        return 'two-digit ring closure'
    return 'other'


def run_brackets(shard):
    from rdkit import RDLogger
    RDLogger.DisableLog('rdApp.*')
    k, nsh, tier = shard
    acc = Acc()
    iso = ['', '2', '13', '999', '1000', '0', '01']
    sym = ['C', 'N', 'O', 'H', 'S', 'Cl', 'Na', 'Fe', 'Se', 'c', 'n', 'se', 'as', 'te', 'X', 'Xx']
    chi = ['', '@', '@@', '@@@']
    hh = ['', 'H', 'H0', 'H1', 'H4', 'H5', 'H9']
    chg = ['', '+', '-', '++', '--', '+++', '----', '+1', '-2', '+4', '+5', '+0', '+-']
    mp = ['', ':0', ':1', ':12', ':1234', ':12345']
    i = 0
    for a in iso:
        for b in sym:
            for c in chi:
                for d in hh:
                    for e in chg:
                        for f in mp:
                            i += 1
                            if i % nsh != k:
                                continue
                            judge(acc, '[%s%s%s%s%s%s]' % (a, b, c, d, e, f), rdkit=(i % 7 == 0), source='bracket')
    acc.sample({'bracket product': {'isotope': iso, 'symbol': sym, 'chirality': chi, 'H': hh, 'charge': chg, 'map': mp}})
    return acc


def run_tokens(shard):
    from rdkit import RDLogger
    RDLogger.DisableLog('rdApp.*')
    first, L, tier = shard
    acc = Acc()
    for combo in itertools.product(SIGMA, repeat=L - 1):
        s = first + ''.join(combo)
        if ' |' in s[:-8] and not s.endswith('|'):
            pass
        judge(acc, s, rdkit=(L <= 3), source='tokens L=%d' % L)
    return acc


def run_corpus(shard):
    from rdkit import RDLogger
    RDLogger.DisableLog('rdApp.*')
    k, nsh, tier = shard
    acc = Acc()
    rows = M.corpus()
    for i, s in enumerate(rows):
        if i % nsh != k:
            continue
        judge(acc, s, rdkit=True, source='corpus')
    short = sorted(set(rows), key=lambda x: (len(x), x))[: (60 if tier == 'quick' else 200)]
    alphabet = list('CNOSFIclBrnos()[]=#-+@/\\.%1239:HP>~ |^f,0')
    for i, s in enumerate(short):
        if i % nsh != k:
            continue
        for pos in range(len(s) + 1):
            if pos < len(s):
                judge(acc, s[:pos] + s[pos + 1:], rdkit=False, source='deletion')
            for ch in (alphabet if tier == 'thorough' or pos % 3 == 0 else alphabet[:12]):
                judge(acc, s[:pos] + ch + s[pos:], rdkit=False, source='insertion')
                if pos < len(s) and ch != s[pos]:
                    judge(acc, s[:pos] + ch + s[pos + 1:], rdkit=False, source='substitution')
    acc.sample({'corpus': rows[k], 'edits': 'every deletion / insertion / substitution of the shortest corpus strings'})
    return acc


EXTRA = ['C', 'CC', 'C=C', 'C#N', 'c1ccccc1', 'C1CC1', 'C%10CC%10', 'C12CC1C2', 'C1CC1C1CC1', 'C=1CC1', 'C1CC=1', 'C=1CC=1', 'C-1CC=1', 'C/C=C/C', 'C/C=C\\C', 'F/C=C/1CCCC1', 'C/1=C/CCCCCC1',
         'C(/F)=C/F', '[C@H](F)(Cl)Br', 'F[C@H](Cl)Br', 'F[C@](Cl)(Br)I', 'C[C@H]1CCCO1', '[C@]12(CCCO1)CCCN2', 'CC.[C@H](F)(Cl)Br', 'N[C@@H](C)C(=O)O', 'CC=[C@]=CC', 'C[C@@]1(F)CC1Cl',
         '[Na+].[Cl-]', 'C.C.C', 'CC>>CC', 'CC>O>CC', '>>CC', 'CC>>', '>CC>', 'C.C>>CC', 'CC(=O)O.OCC>[H+]>CC(=O)OCC.O', '[Na+].[Cl-]>>[Na+].[Cl-] |f:0.1,2.3|', '>[Na+].[Cl-]> |f:0.1|',
         'C[CH2] |^1:1|', '[CH3] |^1:0|', 'C[CH2]>>CC |^1:1|', 'CC>[Cl].[Cl]>CCCl |^1:2,3|', '[CH3]', 'C[O]', 'c1cc[nH]c1', 'c1ccncc1', '[nH]1cccc1', 'c1ccc2ccccc2c1', 'C~C', 'C~[Fe]', '[Fe+2]', '[Fe++]',
         '[Fe+++]', '[O--]', '[13CH4]', '[2H]O[2H]', '[CH3:1][OH:2]', '[C:1]([H:7])(C)O', 'C(C)(C)(C)C', 'C((C))', 'C()', '(C)', 'C(', 'C)', 'C1', 'C%1', '1CC1', 'C=', '=C', 'C==C', 'C..C', '.C', 'C.',
         'C>C', 'C>>>C', '', ' ', 'C C', 'C |^1:5|', 'C |f:0.1|', 'Xx', 'C[', 'C]', '[]', '[C', '[CH2+-]', 'c', 'cc', 'c1ccc1', 'C1CCC0', 'C0CC0', 'C%00', 'C%100CC%100', 'C%10%11CC%10C%11', 'Clc1ccccc1Br',
         'BrBr', 'B', 'Bl', 'Cr', '[Cr]', 'Sc', '[Sc]', 'CO.(C)', 'C=(C)C', 'C(=O)', 'C(=O)(O)', 'C1=CC=C1', 'C:C', 'c:c', 'c1:c:c:c:c:c1', 'C-C', 'c-c', 'c1ccccc1-c1ccccc1', 'C/C', 'C/=C', 'C/C=C', 'C=C/C',
         'C#C#C', '[CH5]', '[CH0]', 'C[N+](C)(C)C', '[N+](=O)[O-]', 'CN(=O)=O', '[C-]#[O+]', '[H][H]', '[H+]', '[H-]', '[2H]', 'C(F)(F)(F)(F)F', '[SiH4]', '[Si]', 'p1cccc1', 'o1cccc1', 's1cccc1', 'b1ccccc1',
         '[se]1cccc1', '[te]1cccc1', '[as]1ccccc1', 'C1CC2', 'C12CC1', 'C1(CC1', 'C1CC1)', 'C1C(C1', '[C@@](F)(Cl)(Br)I', '[C@@@H](F)(Cl)Br', 'C[C@@H]', '[C@H]', 'N1CC1(C)', 'C1.C1', 'C1.CC1', 'CC.1C1',
         # atom maps: repeated numbers inside one molecule, across molecules and roles, gaps, large numbers; mapped atoms in every role
         '[CH3:1][CH2:1]O', '[CH3:1][CH2:1]O>>CC=O', '[CH3:1][CH2:1]O>>[CH3:1][CH:1]=O', '[CH3:1]C.[CH3:1]O>>CC', '[CH3:1][CH2:2]O>>[CH3:1][CH:2]=O', '[CH3:7][CH2:3]O>[OH2:7]>[CH3:3][CH:7]=O',
         '[CH3:1][CH2:1][OH:1]>>[CH3:1][CH:1]=[O:1]', '[CH3:999]C', '[CH3:0]C', '[CH3:2][CH3:1]', 'C[CH2:5]O>>C[CH:5]=O', '[CH3:1]C>>', '>>[CH3:1]C', '>[CH3:1][CH3:1]>',
         # stereo marks on mapped atoms: the map numbers run against the writing order
         '[CH3:9][C@H:1](F)Cl', '[C@H:9]([F:1])(Cl)Br', '[C@@H:2]([CH3:1])(F)Cl', 'F[C@H:1]([CH3:5])Cl', '[CH3:3][C@:2]([F:1])(Cl)Br', '[F:4][C@:1]([Cl:3])([Br:2])I', '[CH3:9][C@H:1](F)Cl>>[CH3:9][C@@H:1](F)Cl',
         '[CH3:5]/[CH:4]=[CH:3]/[CH3:1]', '[CH3:1][CH:2]=[C@:9]=[CH:3][CH3:4]', '[C@H:9]1([CH3:1])[CH2:8][CH2:2][O:3]1',
         # direction mark on the opening digit only, on the closing digit only, on both; the closing atom is the double-bond atom
         'C/1CCCCC/C=C1', 'C/1C(C)CCCC1=C/F', 'N/%12CCCCCC/C=C%12', 'C1CCCCC/C=C/1', 'C/1CCCCC/C=C/1', 'C\\1CCCCC/C=C1', 'F/C=C1/CCCC(C)C/1', 'F/C=C/1CCCC(C)C1', 'C/1(=C/F)CCCC(C)C1']


def run_extra(shard):
    from rdkit import RDLogger
    RDLogger.DisableLog('rdApp.*')
    acc = Acc()
    from ..scope import inputs
    from .c12 import CENTRES, ALKENES, ALLENES
    for s in EXTRA + inputs.ring_stereo_family() + inputs.interdependent_family() + inputs.isoh_family() + [c[0] for c in CENTRES] + ALKENES + ALLENES:
        judge(acc, s, rdkit=True, source='curated')
    acc.sample({'curated strings': EXTRA[:10]})
    return acc


def plan(tier, seed):
    L = 4 if tier == 'quick' else 5
    st = [Stage('bracket atoms', run_brackets, [(k, 32, tier) for k in range(32)], 'isotope x symbol x chirality x H x charge x map product (7x16x4x7x13x6 = 244 608 one-atom strings)'),
          Stage('curated strings', run_extra, [0], '%d strings covering every listed feature and its malformed neighbours' % len(EXTRA))]
    for l in range(1, L + 1):
        st.append(Stage('token strings L=%d' % l, run_tokens, [(t, l, tier) for t in SIGMA], 'all strings of %d tokens over a %d-token alphabet' % (l, len(SIGMA))))
    st.append(Stage('corpus and single edits', run_corpus, [(k, 64, tier) for k in range(64)], 'the 4200 corpus strings; every single deletion / insertion / substitution of the %d shortest' % (60 if tier == 'quick' else 200)))
    return st


def replay(rec):
    acc = Acc()
    judge(acc, rec['text'], rdkit=True, source='replay')
    return [f for f in acc.fails if f['key'] == rec['key']]
