"""C10 -- binary pack format: lossless round trip, published layout bit for bit, old packs keep decoding, length helpers."""
import itertools
import zlib

from ..core import Acc, Stage
from ..oracle import pack_ref
from ..scope import molecules as M, inputs

META = {
    'technique': 'field-exhaustive enumeration of the pack format on a model mechanically derived from the .pyx sources (C integer semantics), with conformance replay of 4200 published packs; bytes compared with an independent layout writer',
    'rule': 'one state per enumerated molecule / field value / reaction shape / half-float; transitions = pack, unpack, pack_len, dispatcher calls',
    'assumptions': ['Cython is not installed: _pack_v2.pyx/_unpack_v0v2.pyx run as a source-derived Python model with C integer semantics; intermediate values leaving the C range abort with ModelLimit',
                    'pach/SI.zip holds packs produced by a compiled build (conformance traces)'],
}


def ci():
    from .c18 import pyx_common_isotopes
    return pyx_common_isotopes('chython/containers/_pack_v2.pyx')


def check_mol(acc, m, tag, bad, table, ref_bytes=True):
    from chython import MoleculeContainer
    import chython
    acc.states += 1
    acc.transitions += 3
    try:
        data = m.pack(compressed=False)
    except Exception as e:
        bad('pack raised %s' % type(e).__name__, mol=tag)
        return None
    if ref_bytes:
        exp = pack_ref.encode(pack_ref.plain_from_chython(m, table))
        if data != exp:
            i = next((i for i, (x, y) in enumerate(zip(data, exp)) if x != y), min(len(data), len(exp)))
            bad('pack bytes differ from the published layout', mol=tag, first_diff_byte=i, got=data[max(0, i - 2):i + 3].hex(), expected=exp[max(0, i - 2):i + 3].hex())
            return data
    try:
        u = MoleculeContainer.unpack(data, compressed=False)
    except Exception as e:
        bad('unpack raised %s' % type(e).__name__, mol=tag)
        return data
    if pack_ref.raw_state(u) != pack_ref.raw_state(m):
        a, b = pack_ref.raw_state(u), pack_ref.raw_state(m)
        which = 'atoms' if a[0] != b[0] else 'bonds/neighbour order' if a[1] != b[1] else 'cis-trans stereo'
        bad('unpack(pack(m)) differs from m (%s)' % which, mol=tag)
        return data
    if MoleculeContainer.pack_len(data, compressed=False) != len(m):
        bad('pack_len differs from atom count', mol=tag)
    z = zlib.compress(data, 9)
    try:
        u2 = chython.unpack(z)
        if pack_ref.raw_state(u2) != pack_ref.raw_state(m) or not isinstance(u2, MoleculeContainer):
            bad('chython.unpack dispatch returns a different object', mol=tag)
        if m.pack() != z or MoleculeContainer.pack_len(z) != len(m):
            bad('compressed pack differs', mol=tag)
    except Exception as e:
        bad('chython.unpack raised %s' % type(e).__name__, mol=tag)
    return data


def mkbad(acc):
    def bad(what, **d):
        acc.fail(what, **d)
        acc.outcomes['FAIL ' + what] += 1
    return bad


def single(cls, n=1, **slots):
    from chython import MoleculeContainer
    m = MoleculeContainer()
    a = cls()
    m.add_atom(a, n, _skip_calculation=True)
    m.calc_labels()
    for k, v in slots.items():
        setattr(a, k, v)
    return m


def run_fields(shard):
    """field sweeps on 1-2 atom molecules"""
    from chython import MoleculeContainer
    from chython.periodictable import Element, C, N
    kind, lo, hi = shard
    acc = Acc()
    bad = mkbad(acc)
    table = ci()
    if kind == 'numbers':
        for n in range(lo, hi):
            m = single(C, n)
            check_mol(acc, m, 'atom number %d' % n, bad, table)
            k = 4096 - n
            if k != n:
                m = MoleculeContainer()
                m.add_atom('C', n, _skip_calculation=True)
                m.add_atom('N', k, _skip_calculation=True)
                m.add_bond(n, k, 1, _skip_calculation=True)
                m.fix_structure()
                check_mol(acc, m, 'bonded atom numbers %d,%d' % (n, k), bad, table)
        acc.sample({'atom numbers': [lo, hi - 1]})
    elif kind == 'bytes':
        # shared bytes: stereo(5) x isotope code(0..31) x Z  ;  H(0..6,None) x charge(9) x radical(2)
        for z in range(lo, hi):
            cls = Element.from_atomic_number(z)
            ref = table[z]
            for st in (None, True, False):
                for code in range(0, 32):
                    iso = None if code == 0 else ref + code
                    for nb in ((), (2, 3), (2, 3, 4)) if st is not None else ((),):
                        m = MoleculeContainer()
                        m.add_atom(cls(), 1, _skip_calculation=True)
                        for k in nb:
                            m.add_atom('C', k, _skip_calculation=True)
                            m.add_bond(1, k, 1, _skip_calculation=True)
                        m.calc_labels()
                        for _, a in m.atoms():
                            a._implicit_hydrogens = 0
                        m.atom(1)._isotope = iso
                        m.atom(1)._stereo = st
                        check_mol(acc, m, 'Z=%d stereo=%s isotope_code=%d neighbours=%d' % (z, st, code, len(nb)), bad, table)
            if z in (1, 6, 7, 26, 118):
                for h in (None, 0, 1, 2, 3, 4, 5, 6):
                    for ch in range(-4, 5):
                        for rad in (False, True):
                            m = single(cls, 1, _implicit_hydrogens=h, _charge=ch, _is_radical=rad)
                            check_mol(acc, m, 'Z=%d H=%s charge=%d radical=%s' % (z, h, ch, rad), bad, table)
        acc.sample({'Z': [lo, hi - 1], 'stereo': [None, True, False], 'isotope codes': '0..31', 'H x charge x radical': 'full product on Z in 1,6,7,26,118'})
    elif kind == 'stars':
        for nb in range(0, 16):
            m = MoleculeContainer()
            m.add_atom('Fe', 1, _skip_calculation=True)
            for k in range(nb):
                m.add_atom('C', 100 + k * 250, _skip_calculation=True)
                m.add_bond(1, 100 + k * 250, (1, 2, 3, 4, 8)[k % 5], _skip_calculation=True)
            m.calc_labels()
            for _, a in m.atoms():
                a._implicit_hydrogens = None
            check_mol(acc, m, 'star with %d neighbours' % nb, bad, table)
        # too many neighbours / numbers must be rejected by check=True
        m = MoleculeContainer()
        m.add_atom('Fe', 1, _skip_calculation=True)
        for k in range(16):
            m.add_atom('C', 2 + k, _skip_calculation=True)
            m.add_bond(1, 2 + k, 1, _skip_calculation=True)
        for bad_m, what in ((m, '16 neighbours'), (single(C, 4096), 'atom number 4096'), (MoleculeContainer(), 'empty molecule')):
            acc.states += 1
            acc.transitions += 1
            try:
                bad_m.pack()
                bad('pack accepts a molecule outside the format limits (%s)' % what)
            except ValueError:
                pass
            except Exception as e:
                bad('pack of %s raised %s instead of ValueError' % (what, type(e).__name__))
    elif kind == 'orders':
        # chains: every order assignment for b <= 5 bonds; b = 6..17: all-same and one-different patterns (every phase of the 3-bit packing)
        def chain(orders, tag):
            m = MoleculeContainer()
            for i in range(len(orders) + 1):
                m.add_atom('C', i + 1, _skip_calculation=True)
            for i, o in enumerate(orders):
                m.add_bond(i + 1, i + 2, o, _skip_calculation=True)
            m.calc_labels()
            for _, a in m.atoms():
                a._implicit_hydrogens = 0
            check_mol(acc, m, tag, bad, table)
        for b in range(0, 6):
            for orders in itertools.product((1, 2, 3, 4, 8), repeat=b):
                chain(orders, 'chain orders %s' % (list(orders),))
        for b in range(6, 18):
            for base in (1, 2, 3, 4, 8):
                chain([base] * b, 'chain %d x order %d' % (b, base))
                for pos in range(b):
                    for other in (1, 4, 8):
                        if other != base:
                            o = [base] * b
                            o[pos] = other
                            chain(o, 'chain %d x order %d, bond %d = %d' % (b, base, pos, other))
        acc.sample({'bond orders': 'all of {1,2,3,4,8}^b, b<=5; one-different patterns b=6..17'})
    return acc


def run_floats(shard):
    """all 65536 half-floats through the unpacker, each with neighbours and midpoints through the packer"""
    import numpy as np
    from chython import MoleculeContainer
    from chython.periodictable import C
    lo, hi = shard
    acc = Acc()
    bad = mkbad(acc)
    table = ci()
    base = single(C, 1, _implicit_hydrogens=4)
    raw = bytearray(base.pack(compressed=False))
    for bits in range(lo, hi):
        acc.states += 1
        acc.transitions += 2
        e = (bits >> 10) & 0x1f
        if e == 0x1f:
            # inf / nan patterns: the format has no such values; decoder just scales them. not judged, but must not raise
            raw[8:10] = bits.to_bytes(2, 'big')
            try:
                MoleculeContainer.unpack(bytes(raw), compressed=False)
            except Exception as ex:
                bad('unpack of half-float pattern raised %s' % type(ex).__name__, bits=bits)
            acc.ood['inf/nan bit patterns'] += 1
            continue
        raw[8:10] = bits.to_bytes(2, 'big')
        raw[10:12] = (bits ^ 0x8000).to_bytes(2, 'big')
        try:
            u = MoleculeContainer.unpack(bytes(raw), compressed=False)
        except Exception as ex:
            bad('unpack of half-float pattern raised %s' % type(ex).__name__, bits=bits)
            continue
        exp = pack_ref.half_value(bits)
        a = u.atom(1)
        if a.x != exp or a.y != -exp:
            bad('half-float decodes to a different value', bits=bits, got=[a.x, a.y], expected=exp)
            continue
        # re-encode exact value, and values just inside the next step: must give the same / bracketing half
        vals = [exp]
        if bits & 0x7fff:
            nxt = pack_ref.half_value(bits + 1) if ((bits + 1) >> 10) & 0x1f != 0x1f else None
            if nxt is not None:
                vals += [(exp + nxt) / 2, exp + (nxt - exp) * 0.999]
        for v in vals:
            m = single(C, 1, _implicit_hydrogens=4)
            m.atom(1).xy = (v, 0.)
            try:
                d = m.pack(compressed=False)
            except Exception as ex:
                bad('pack of coordinate raised %s' % type(ex).__name__, value=v)
                break
            got = int.from_bytes(d[8:10], 'big')
            if got != pack_ref.half_bits_trunc(v) or abs(pack_ref.half_value(got)) > abs(v) or (got & 0x7fff) not in ((bits & 0x7fff), (bits & 0x7fff)):
                bad('coordinate is not stored as the half-float at or just below it', value=v, got=got, expected=pack_ref.half_bits_trunc(v))
                break
        acc.outcomes[e] += 1
    acc.sample({'half-float bit patterns': [lo, hi - 1]})
    return acc


def run_small(shard):
    k, nsh, tier = shard
    acc = Acc()
    bad = mkbad(acc)
    table = ci()
    nmax, kk = (5, 1) if tier == 'quick' else (5, 2)
    for i, spec in enumerate(M.scope(nmax, kk, shard=k, nshards=nsh)):
        n = len(spec['atoms'])
        nums = [((v * 7 + 3) * 97) % 4095 + 1 for v in range(n)] if i % 2 else list(range(1, n + 1))
        m = M.to_chython(spec, numbers=nums, atom_order=list(range(n))[::-1] if i % 3 == 0 else None)
        for j, (_, a) in enumerate(m.atoms()):
            a.xy = (j * 0.75 - 1.5, (j % 3) * 1.25)
        check_mol(acc, m, spec['tag'], bad, table)
    return acc


def run_text(shard):
    from chython import smiles
    k, nsh, tier = shard
    acc = Acc()
    bad = mkbad(acc)
    table = ci()
    rows = [('stereo', s) for s in inputs.ring_stereo_family()] + [('poly', s) for s in ('C/C=C/C', 'C/C=C\\C', 'C/C=C/C=C/C', 'C/C=C/C=C\\C=C/C', 'CC=C=CC', 'C[C@H](O)/C=C/C=C=C(C)F', 'C/C=C/C/C=C/C/C=C\\C', 'C/C=C=C=C/C', 'C/C=C=C=C\\C', 'F/C=C=C=C=C=C/F', 'C/C=C=C=C/C.C/C=C/C', 'CC(F)=[C@]=C(Cl)C', 'CC(F)=[C@@]=C(Cl)C')]
    rows += [('corpus', s) for s in M.corpus(stride=8 if tier == 'quick' else 1)]
    for i, (fam, s) in enumerate(rows):
        if i % nsh != k:
            continue
        try:
            m = smiles(s)
        except Exception:
            continue
        check_mol(acc, m, s, bad, table)
        mm = m.copy()
        mm.kekule()
        check_mol(acc, mm, s + ' (kekule)', bad, table)
        if i < 2:
            acc.sample({'smiles': s})
    return acc


def run_reactions(shard):
    import chython
    from chython import ReactionContainer, MoleculeContainer, smiles
    acc = Acc()
    bad = mkbad(acc)
    pool = [smiles(s) for s in ('C', 'CC', 'CCO', 'c1ccccc1', '[Na+]', 'C[C@H](N)O', 'C/C=C/C', 'O=C=O')]
    shapes = [s for s in itertools.product(range(4), repeat=3) if any(s)] + [(255, 0, 0), (0, 255, 0), (0, 0, 255), (255, 1, 0), (1, 0, 255)]
    for (a, b, c) in shapes:
        acc.states += 1
        acc.transitions += 4
        tag = 'reaction %d reactants, %d reagents, %d products' % (a, b, c)
        mols = [pool[i % len(pool)] for i in range(a + b + c)]
        r = ReactionContainer(mols[:a], mols[a + b:], mols[a:a + b])
        try:
            data = r.pack(compressed=False)
        except Exception as e:
            bad('reaction pack raised %s' % type(e).__name__, mol=tag)
            continue
        exp = bytes((1, a, b, c)) + b''.join(m.pack(compressed=False) for m in mols)
        if data != exp:
            bad('reaction pack bytes differ from the published layout', mol=tag)
        try:
            u = ReactionContainer.unpack(data, compressed=False)
            got = ([pack_ref.raw_state(m) for m in u.reactants], [pack_ref.raw_state(m) for m in u.reagents], [pack_ref.raw_state(m) for m in u.products])
            want = ([pack_ref.raw_state(m) for m in mols[:a]], [pack_ref.raw_state(m) for m in mols[a:a + b]], [pack_ref.raw_state(m) for m in mols[a + b:]])
            if got != want:
                bad('reaction unpack changes roles or molecules', mol=tag, got=[len(x) for x in got], expected=[a, b, c])
        except Exception as e:
            bad('reaction unpack raised %s' % type(e).__name__, mol=tag)
        try:
            pl = ReactionContainer.pack_len(data, compressed=False)
            want = ([len(m) for m in mols[:a]], [len(m) for m in mols[a:a + b]], [len(m) for m in mols[a + b:]])
            if tuple(list(x) for x in pl) != want:
                bad('reaction pack_len differs from the true atom counts', mol=tag, got=[list(x) for x in pl], expected=list(want))
        except Exception as e:
            bad('reaction pack_len raised %s' % type(e).__name__, mol=tag)
        try:
            u = chython.unpack(zlib.compress(data))
            if not isinstance(u, ReactionContainer) or (len(u.reactants), len(u.reagents), len(u.products)) != (a, b, c):
                bad('chython.unpack dispatch of a reaction pack wrong', mol=tag)
        except Exception as e:
            bad('chython.unpack of a reaction pack raised %s' % type(e).__name__, mol=tag)
        acc.outcomes[(min(a, 4), min(b, 4), min(c, 4))] += 1
    acc.sample({'reaction shapes': '{0..3}^3 minus (0,0,0) plus 255 in single roles'})
    # invalid headers
    for hdr in (3, 4, 0xff):
        acc.transitions += 1
        try:
            chython.unpack(zlib.compress(bytes((hdr, 0, 16, 0)) + bytes(9)))
            bad('pack with header %d accepted' % hdr)
        except ValueError:
            pass
        except Exception as e:
            bad('invalid header raised %s instead of ValueError' % type(e).__name__)
    return acc


def run_published(shard):
    """conformance traces: pach/SI.zip data/<i>.pach (compiled build, 2023) <-> row i of pach/lipophilicity.csv"""
    import os
    import zipfile
    import chython
    from chython import MoleculeContainer
    from rdkit import Chem
    from ..boot import REPO
    from ..oracle import rdk
    k, nsh, tier = shard
    acc = Acc()
    bad = mkbad(acc)
    rows = M.corpus()
    z = zipfile.ZipFile(os.path.join(REPO, 'pach', 'SI.zip'))
    stride = 4 if tier == 'quick' else 1
    for i in range(k * stride, 4200, nsh * stride):
        acc.states += 1
        acc.transitions += 3
        raw = z.read('data/%d.pach' % i)
        tag = 'published pack data/%d.pach' % i
        try:
            m = chython.unpack(raw)
        except Exception as e:
            bad('published pack does not decode: %s' % type(e).__name__, mol=tag)
            continue
        d = zlib.decompress(raw)
        if m.pack(compressed=False) != d:
            bad('published pack does not re-encode to the identical bytes', mol=tag)
            continue
        if MoleculeContainer.pack_len(raw) != len(m):
            bad('pack_len of a published pack wrong', mol=tag)
        acc.traces += 1
        # same structure as the published CSV row, judged by RDKit on chython's own SMILES of the decoded molecule
        try:
            mm = m.copy()
            mm.kekule()
            mm.thiele()
            ra = Chem.MolFromSmiles(str(mm))
            rb = Chem.MolFromSmiles(rows[i])
            if ra is None or rb is None:
                acc.ood['rdkit cannot read one side'] += 1
            elif not rdk.same(ra, rb):
                ra2 = Chem.MolFromSmiles(Chem.MolToSmiles(ra, isomericSmiles=False))
                rb2 = Chem.MolFromSmiles(Chem.MolToSmiles(rb, isomericSmiles=False))
                if Chem.MolToSmiles(ra2) != Chem.MolToSmiles(rb2):
                    bad('published pack decodes to a different constitution than its CSV row', mol=tag, got=str(mm), expected=rows[i])
                else:
                    acc.info['stereo differs from CSV row (pack made from another spelling / non-carbon or pseudo-asymmetric centres)'] += 1
        except Exception as e:
            acc.ood['structure comparison failed: %s' % type(e).__name__] += 1
        if i < 2:
            acc.sample({'trace': tag, 'bytes': len(d)})
    return acc


def run_v0(shard):
    """legacy version-0 packs written by the independent encoder must decode through both entry points"""
    import chython
    from chython import MoleculeContainer, smiles
    acc = Acc()
    bad = mkbad(acc)
    table = ci()
    for s in ['C', 'CC', 'CCO', 'C=C', 'C#N', 'c1ccccc1', 'CC(=O)Oc1ccccc1C(O)=O', 'CCCCCC', 'CCCCCCC', 'C1CC1', 'OC(=O)CCCCC(=O)O', '[Na+].[Cl-]', 'C~C']:
        m = smiles(s)
        for _, a in m.atoms():
            a._stereo = None
        plain = pack_ref.plain_from_chython(m, table)
        plain['cis_trans'] = []
        d0 = pack_ref.encode(plain, version=0)
        acc.states += 1
        acc.transitions += 3
        for name, f in (('MoleculeContainer.unpack', lambda: MoleculeContainer.unpack(d0, compressed=False)), ('chython.unpack', lambda: chython.unpack(zlib.compress(d0)))):
            try:
                u = f()
                if pack_ref.raw_state(u) != pack_ref.raw_state(m):
                    bad('version-0 pack decodes to a different molecule via %s' % name, mol=s)
            except Exception as e:
                bad('version-0 pack rejected by %s: %s' % (name, type(e).__name__), mol=s)
        try:
            if MoleculeContainer.pack_len(d0, compressed=False) != len(m):
                bad('pack_len of a version-0 pack wrong', mol=s)
        except Exception as e:
            bad('pack_len of a version-0 pack raised %s' % type(e).__name__, mol=s)
    acc.sample({'version-0 packs': 13})
    return acc


def run_limits(shard):
    """molecules at the format limits: 4095 atoms; connection table beyond byte 65535"""
    from chython import MoleculeContainer
    n, k = shard
    acc = Acc()
    bad = mkbad(acc)
    table = ci()
    m = MoleculeContainer()
    for i in range(1, n + 1):
        m.add_atom('C', i, _skip_calculation=True)
    for i in range(1, n + 1):
        for d in range(1, k + 1):
            if i + d <= n:
                m.add_bond(i, i + d, (1, 2, 3, 4, 8)[(i + d) % 5], _skip_calculation=True)
    for _, a in m.atoms():
        a._implicit_hydrogens = 0
        a._neighbors = a._heteroatoms = a._explicit_hydrogens = 0
        a._hybridization = 1
        a._in_ring = False
        a._ring_sizes = set()
    for *_, b in m.bonds():
        b._in_ring = False
    tag = '%d atoms, each bonded to the next %d (%d bonds)' % (n, k, m.bonds_count)
    acc.states += 1
    acc.transitions += 3
    try:
        data = m.pack(compressed=False)
        exp = pack_ref.encode(pack_ref.plain_from_chython(m, table))
        if data != exp:
            bad('pack bytes differ from the published layout', mol=tag)
        if MoleculeContainer.pack_len(data, compressed=False) != n:
            bad('pack_len differs from atom count', mol=tag)
        u = MoleculeContainer.unpack(data, compressed=False, skip_labels_calculation=True)
        if pack_ref.raw_state(u) != pack_ref.raw_state(m):
            bad('unpack(pack(m)) differs from m (bonds/neighbour order)', mol=tag)
        acc.outcomes['limit molecule round trip'] += 1
    except Exception as e:
        if type(e).__name__ == 'ModelLimit':
            # a C loop variable cannot hold the value: what a compiled unpacker does here is outside the model -> not judged
            acc.caps.append('model limit on %s: %s' % (tag, e))
            acc.info['inconclusive (ModelLimit): ' + str(e)[:80]] += 1
        else:
            bad('limit molecule raised %s' % type(e).__name__, mol=tag)
    acc.sample({'limit molecule': tag})
    return acc


def plan(tier, seed):
    st = [Stage('atom numbers 1..4095', run_fields, [('numbers', a, min(a + 256, 4096)) for a in range(1, 4096, 256)], 'every atom number on 1- and 2-atom molecules'),
          Stage('shared bytes', run_fields, [('bytes', z, z + 1) for z in (range(1, 119) if tier == 'thorough' else list(range(1, 119, 3)) + [118])],
                'stereo(none/T/F, tetrahedral and allene) x isotope code 0..31 x Z%s; H(0..6,None) x charge x radical' % ('' if tier == 'thorough' else ' (every 3rd element)')),
          Stage('neighbour counts and limits', run_fields, [('stars', 0, 0)], 'stars with 0..15 neighbours and sparse atom numbers; format limits rejected'),
          Stage('bond-order block', run_fields, [('orders', 0, 0)], 'chains: {1,2,3,4,8}^b for b<=5; one-different patterns b=6..17'),
          Stage('half floats', run_floats, [(a, a + 2048) for a in range(0, 65536, 2048)], 'all 65536 bit patterns through the unpacker; value, midpoint and 0.999 step through the packer'),
          Stage('small molecules', run_small, [(k, 32, tier) for k in range(32)], 'D(<=5,%d) with sparse numbers, reversed insertion, coordinates' % (1 if tier == 'quick' else 2)),
          Stage('stereo family + corpus', run_text, [(k, 32, tier) for k in range(32)], 'ring/double-bond stereo family, polyenes/allenes, corpus stride %d; aromatic and Kekule' % (8 if tier == 'quick' else 1)),
          Stage('reactions', run_reactions, [0], '(reactants, reagents, products) in {0..3}^3 and 255 per role; bytes, unpack, pack_len, dispatcher'),
          Stage('published packs (conformance)', run_published, [(k, 32, tier) for k in range(32)], 'pach/SI.zip stride %d: decode, re-encode identical, same structure as CSV row' % (4 if tier == 'quick' else 1)),
          Stage('format limits', run_limits, [(4095, 1), (4095, 2), (4000, 3)], '4095-atom chain, 4095 atoms x 2 forward bonds (order block ends below byte 65535), 4000 atoms x 3 forward bonds (connection table beyond byte 65535)'),
          Stage('version-0 packs', run_v0, [0], '13 legacy-layout packs from the independent writer through both entry points')]
    return st


def replay(rec):
    # field/shape cases are cheap: re-run the owning stage family and pick the recorded key
    key = rec['key']
    tag = rec.get('mol', '')
    cands = []
    if tag.startswith('reaction') or 'header' in key or 'reaction' in key:
        cands = [run_reactions(0)]
    elif tag.startswith('published'):
        import re
        i = int(re.search(r'data/(\d+)', tag).group(1))
        cands = [run_published((i, 4200, 'thorough'))]
    elif 'version-0' in key:
        cands = [run_v0(0)]
    elif 'half-float' in key or 'coordinate' in key:
        b = rec.get('bits')
        cands = [run_floats((b, b + 1))] if b is not None else [run_floats((0, 65536))]
    elif tag.startswith('atom number') or tag.startswith('bonded atom'):
        import re
        n = int(re.search(r'(\d+)', tag).group(1))
        cands = [run_fields(('numbers', n, n + 1))]
    elif tag.startswith('Z='):
        import re
        zz = int(re.match(r'Z=(\d+)', tag).group(1))
        cands = [run_fields(('bytes', zz, zz + 1))]
    elif tag.startswith('star') or 'limits' in key:
        cands = [run_fields(('stars', 0, 0))]
    elif tag.startswith('chain'):
        cands = [run_fields(('orders', 0, 0))]
    elif tag.startswith('n'):
        cands = [run_small((0, 1, 'thorough'))]
    else:
        cands = [run_text((0, 1, 'thorough'))]
    return [f for a in cands for f in a.fails if f['key'] == key]
