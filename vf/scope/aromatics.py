"""Deterministic family of Kekule-form ring systems for C05 (SMILES strings; every member enumerated)."""
import itertools


def _subs(n, alphabet, maxdev):
    base = alphabet[0]
    for k in range(maxdev + 1):
        for pos in itertools.combinations(range(n), k):
            for rep in itertools.product(alphabet[1:], repeat=k):
                t = [base] * n
                for p, r in zip(pos, rep):
                    t[p] = r
                yield t


def six_rings(maxdev=2):
    out = []
    alpha = ['C', 'N', 'C(C)', 'C(O)', 'C(N)', 'C(F)']
    for t in _subs(6, alpha, maxdev):
        # alternating double bonds starting at 0-1 ; ring closure 1 on atom 0
        a = [x if '(' not in x else x for x in t]
        s = a[0][0] + '1' + a[0][1:] + '=' + a[1] + a[2] + '=' + a[3] + a[4] + '=' + a[5] + '1'
        out.append(s)
    # charged six-membered rings: pyridinium N+-R / N+-H, pyrylium, thiopyrylium, at position 0 with <=1 further deviation
    for head in ('[N+]1(C)', '[NH+]1', '[O+]1', '[S+]1'):
        for t in _subs(5, ['C', 'N', 'C(C)'], 1):
            out.append(head + '=' + t[0] + t[1] + '=' + t[2] + t[3] + '=' + t[4] + '1')
    return out


def five_rings(maxdev=2):
    out = []
    heads = ['[NH]1', 'N1(C)', 'O1', 'S1', '[Se]1', '[PH]1', '[CH-]1', 'N1(C(C)=O)', '[BH]1']
    for h in heads:
        for t in _subs(4, ['C', 'N', 'C(C)', 'C(O)'], maxdev):
            out.append(h + t[0] + '=' + t[1] + t[2] + '=' + t[3] + '1')
    return out


def fused(maxdev=2):
    out = []
    # naphthalene skeleton: C1=CC2=CC=CC=C2C=C1 ; positions of CH: 0,1,3,4,5,6,8,9 ; fusion atoms stay C
    for t in _subs(8, ['C', 'N', 'C(C)'], maxdev):
        a = t
        out.append('%s1=%s%s2=%s%s=%s%s=%s2%s=%s1' % (a[0][0], a[1], 'C', a[2], a[3], a[4], a[5], 'C', a[6], a[7]) if '(' not in a[0] else
                   '%s1%s=%s%s2=%s%s=%s%s=%s2%s=%s1' % (a[0][0], a[0][1:], a[1], 'C', a[2], a[3], a[4], a[5], 'C', a[6], a[7]))
    # indole-like: C1=CC=C2C(=C1)C=C[X]2 with X in NH, N-Me, O, S ; <=1 N/C(C) replacement in the six CH positions
    for x in ('N', 'N(C)', 'O', 'S', '[Se]'):
        for t in _subs(6, ['C', 'N', 'C(C)'], 1):
            out.append('%s1=%s%s=C2C(=%s1)%s=%s%s2' % (t[0][0] if '(' not in t[0] else 'C', t[1], t[2], t[3], t[4], t[5], x if x != 'N' else '[NH]')
                       if '(' not in t[0] else 'C1(C)=%s%s=C2C(=%s1)%s=%s%s2' % (t[1], t[2], t[3], t[4], t[5], x if x != 'N' else '[NH]'))
    # benzimidazole / purine-like / three rings / azulene / quinoid / biphenyl / misc
    out += ['C1=CC=C2N=CNC2=C1', 'C1=NC=C2N=CNC2=N1', 'C1=NC2=C(N1)C(=O)NC(N)=N2', 'C1=CC=C2C=C3C=CC=CC3=CC2=C1', 'C1=CC=C2C(=C1)C=CC1=CC=CC=C21',
            'C1=CC=C2C=CC=C2C=C1', 'O=C1C=CC(=O)C=C1', 'O=C1C=CC=CC1=O', 'C1=CC=C(C=C1)C1=CC=CC=C1', 'C1=CC=C(C=C1)C1=CC=NC=C1', 'C1=CN=C2C=CC=CC2=C1',
            'C1=CC=C2C=NC=CC2=C1', 'C1=CC2=C(C=C1)N=CC=N2', 'C1=CC2=NC=CN=C2N=C1', 'N1C=CC2=C1C=CN2', 'C1=CSC2=C1SC=C2', 'C1=COC2=C1C=CO2', 'C1=CC2=CC=CN2C=C1',
            'C1=CN2C=CN=C2C=N1', 'C1=CC=C2C(=C1)NC1=CC=CC=C21', 'C1=CC=C2C(=C1)OC1=CC=CC=C21', 'C1=CC=C2C(=C1)SC1=CC=CC=C21', 'OC1=NC=CC=C1', 'O=C1NC=CC=C1',
            'OC1=CC=NC=C1', 'NC1=NC=NC2=C1N=CN2', 'O=C1NC(=O)C=CN1', 'CN1C=NC2=C1C(=O)N(C)C(=O)N2C', 'C1=C[CH-]C=C1', 'C1=CC=C[CH+]C=C1', 'C1=CC=CC=CC=C1',
            'C1=CC1', 'C1=CC=C1', 'C1=CC=C2C=CC=CC2=C1.C1=CC=NC=C1', '[O-]C1=CC=CC=C1', 'C1=CC=[N+]([O-])C=C1', 'CC1=CC=C(C=C1)S(=O)(=O)N', 'C1=CB=CC=C1',
            'C1=CC=C2C(=C1)C1=CC=CC=C1C1=CC=CC=C21', 'C1=CC2=CC=C3C=CC=C4C=CC(=C1)C2=C34', 'C1=CC2=C3C(=C1)C=CC1=CC=CC(C=C2)=C31']
    # azolide anions (ring N- next to other ring nitrogens), ring radicals
    out += ['C1=C[N-]C=N1', 'C=1N=C[N-]N=1', 'C1=NN=N[N-]1', '[N-]1N=CC=C1', 'C1=CC=C2[N-]C=NC2=C1', 'C1=CC=C2[N-]N=NC2=C1', 'C1=NC=C2N=C[N-]C2=N1', 'CC1=NN=N[N-]1',
            'C1=CC=C(C=C1)C1=NN=N[N-]1', 'C1=CC=CC=[C]1 |^1:5|', 'CC1=CC=C[C]=C1 |^1:5|', 'C1=CC=C2C=CC=[C]C2=C1 |^1:7|', 'C1=CC=N[C]=C1 |^1:4|', 'C1=C[C]=CN1 |^1:2|',
            'C1=CC=C(C=C1)[N]C1=CC=CC=C1 |^1:6|', 'C1=CC=C(C=C1)[O] |^1:6|']
    return out


def family(tier='quick'):
    md = 1 if tier == 'quick' else 2
    return six_rings(md) + five_rings(md) + fused(md)


# ------------------------------------------------------------------ generic ring-system generator (specs)

SKELETONS = {
    '5': (5, [(0, 1), (1, 2), (2, 3), (3, 4), (4, 0)]),
    '6': (6, [(0, 1), (1, 2), (2, 3), (3, 4), (4, 5), (5, 0)]),
    '7': (7, [(0, 1), (1, 2), (2, 3), (3, 4), (4, 5), (5, 6), (6, 0)]),
    '5-6': (9, [(0, 1), (1, 2), (2, 3), (3, 4), (4, 5), (5, 0), (4, 6), (6, 7), (7, 8), (8, 5)]),
    '6-6': (10, [(0, 1), (1, 2), (2, 3), (3, 4), (4, 5), (5, 0), (4, 6), (6, 7), (7, 8), (8, 9), (9, 5)]),
    '5-5': (8, [(0, 1), (1, 2), (2, 3), (3, 4), (4, 0), (3, 5), (5, 6), (6, 7), (7, 4)]),
}
TYPES = ['C', 'N', 'NMe', 'O', 'S']


def matchings(n, edges, min_size):
    out = []

    def rec(i, used, cur):
        if i == len(edges):
            if len(cur) >= min_size:
                out.append(tuple(cur))
            return
        rec(i + 1, used, cur)
        a, b = edges[i]
        if a not in used and b not in used:
            rec(i + 1, used | {a, b}, cur + [i])
    rec(0, frozenset(), [])
    return out


def generic(maxdev=1, skeletons=('5', '6', '5-6', '6-6', '5-5')):
    """yield (tag, spec): every skeleton x every atom-type assignment with <= maxdev hetero positions x every double-bond
    matching leaving <= 2 ring atoms without a double bond. Valence validity is NOT filtered here."""
    for name in skeletons:
        n, edges = SKELETONS[name]
        deg = [0] * n
        for a, b in edges:
            deg[a] += 1
            deg[b] += 1
        ms = matchings(n, edges, (n - 2 + 1) // 2)
        for k in range(maxdev + 1):
            for pos in itertools.combinations(range(n), k):
                if any(deg[p] == 3 for p in pos if False):
                    continue
                for rep in itertools.product(TYPES[1:], repeat=k):
                    types = ['C'] * n
                    for p, r in zip(pos, rep):
                        types[p] = r
                    if any(types[p] in ('O', 'S', 'NMe') and deg[p] == 3 for p in range(n)):
                        continue
                    for m in ms:
                        dbl = set(m)
                        # O / S / NMe cannot carry a double bond in a neutral ring
                        ok = True
                        for ei in dbl:
                            a, b = edges[ei]
                            if types[a] in ('O', 'S', 'NMe') or types[b] in ('O', 'S', 'NMe'):
                                ok = False
                                break
                        if not ok:
                            continue
                        atoms = []
                        bonds = []
                        extra = []
                        for v, t in enumerate(types):
                            atoms.append(({'C': 'C', 'N': 'N', 'NMe': 'N', 'O': 'O', 'S': 'S'}[t], 0, False, None))
                            if t == 'NMe':
                                extra.append(v)
                        for ei, (a, b) in enumerate(edges):
                            bonds.append((a, b, 2 if ei in dbl else 1))
                        for v in extra:
                            atoms.append(('C', 0, False, None))
                            bonds.append((v, len(atoms) - 1, 1))
                        yield '%s %s dbl=%s' % (name, ''.join(t[0] if t != 'NMe' else 'M' for t in types), sorted(dbl)), {'atoms': atoms, 'bonds': bonds}
