"""Shared fixed input families (SMILES strings), all deterministic."""
import ast
import os
import re


def test_groups_pairs():
    """the documented (input, canonical) pairs of standardize/test/test_groups.py, read from the source text"""
    from ..boot import REPO
    p = os.path.join(REPO, 'chython', 'algorithms', 'standardize', 'test', 'test_groups.py')
    txt = open(p).read()
    m = re.search(r'^data = \[(.*?)^\s*\]', txt, re.S | re.M)
    return list(ast.literal_eval('[' + m.group(1) + ']'))


def organometallics():
    """deterministic combinator: metal x ligand motif (chelate rings of size 5/6 through N/P/O/S, cyanide, carbonyl, halides)"""
    out = []
    for metal in ('Pt', 'Pd', 'Cu', 'Fe', 'Zn', 'Ni'):
        out.append('Cl[%s]Cl' % metal)
        out.append('N#C[%s]C#N' % metal)
        out.append('O#C[%s]C#O' % metal)
        for x in ('N', 'P', 'O', 'S'):
            for chain in ('CC', 'CCC'):
                out.append('[%s]1%s%s%s1' % (metal, x, chain, x))
                out.append('Cl[%s]1(Cl)%s%s%s1' % (metal, x, chain, x))
        for x, sub in (('N', '(C)(C)'), ('P', '(C)(C)')):
            out.append('C1C[%s+]%s[%s-2][%s+]1%s' % (x, sub, metal, x, sub))
            out.append('C[%s+]1(C)CC[%s+](C)(C)[%s-2]1(Cl)Cl' % (x, x, metal))
            out.append('C1CC%s%s[%s]%s1%s' % (x, sub, metal, x, sub))
    return out


SMARTS_QUERIES = ['[C;D3;z2]=O', '[N;D1,D2][C;a]', 'c1ccccc1', '[A]-[Cl,Br]', '[C;r5,r6]-;!@[N]', '[O,S;D1][C;z2]', 'C1CCNCC1', '[N;h1,h2]', '[C;x2]',
                  '[A]~[A]~[A]', 'CC(=O)N', '[C;!R]-[C;!R]', '[N+]', 'C.N', '[C;a]:[N;a]', 'C=C', '[C;h3]', '[O;D1]', '[C,N;r6]', 'C(=O)O', 'CO', 'CN',
                  '[S,P]=O', 'C#N', '[C;z1;x1]', 'c1ccncc1', '[N;D3](C)(C)C', '[C;D4]', 'F', 'Cl', '[O;h1]', 'c:c:c', 'C=CC=C', '[N;a;h1]', 'COC',
                  '[C;r5]', '[A;!R]', 'CCCC', 'C(C)(C)C', '[M]']


def ring_stereo_family():
    """deterministic family of ring molecules with 2..3 stereo labelled ring atoms, every label combination:
    rings of size 3..6, substituents C/O/N at every position pair, plus inositol-like fully substituted cyclohexanes."""
    out = []
    marks = ('@', '@@')
    for size in (3, 4, 5, 6):
        for sub in ('C', 'O'):
            for p in range(1, size // 2 + 1):   # second substituent position (ring distance)
                for m1 in marks:
                    for m2 in marks:
                        ring = ['C'] * size
                        ring[0] = '[C%sH](%s)' % (m1, sub)
                        ring[p] = '[C%sH](%s)' % (m2, sub if sub == 'C' else 'O')
                        s = ring[0].replace('[C', '[C', 1)
                        # ring closure digit after first atom
                        first = '[C%sH]1(%s)' % (m1, sub)
                        body = ring[1:]
                        out.append(first + ''.join(body) + '1')
    # three substituents on cyclohexane 1,3,5 and inositol-like all-O with alternating labels
    for m1 in marks:
        for m2 in marks:
            for m3 in marks:
                out.append('[C%sH]1(C)C[C%sH](C)C[C%sH](C)C1' % (m1, m2, m3))
    for pattern in (('@', '@') * 3, ('@', '@@') * 3, ('@@', '@', '@', '@', '@@', '@'), ('@',) * 6):
        out.append('[C%sH]1(O)' % pattern[0] + ''.join('[C%sH](O)' % x for x in pattern[1:]) + '1')
    # chiral spiro centres (one atom closing/opening two rings) and ring-fusion centres carrying two closure digits
    for mk_ in marks:
        for r1, r2 in (('CO', 'CN'), ('CCO', 'CN'), ('CCO', 'CCN'), ('CCCO', 'CCCN'), ('CCCO', 'CCN')):
            out.append('[C%s]12(%s1)%s2' % (mk_, r1, r2))
            out.append('C[C%s]1(%s1)N' % (mk_, r1))
        out.append('C[C%s]12CCCC[C@H]2CC1' % mk_)
        out.append('O[C%s]12CCC[C@@H]1CNC2' % mk_)
    # macrocycles with ring double bonds and conjugated dienes (direction marks meet ring-closure digits)
    out += ['C/C1=C/CCCCCCCCC1', 'C/C1=C\\CCCCCCCCC1', 'C1=C/CCCCCCCCC/1', 'C/C1=C/C=C/CCCCCCCC1', 'C/C1=C\\C=C/CCCCCCC1', 'O=C1N/C=C/C=C(\\C)CCCCCC1', 'F/C=C1/CCCCC(C)C1',
            'C1=C/C2=CC(OC)=CC(O)=C2C(=O)O[C@@H](C)C/C=C\\C(=O)[C@@H](O)[C@@H](O)C/1']
    # double bonds: equivalent E/Z pairs
    out += ['C/C=C/CC/C=C/C', 'C/C=C/CC/C=C\\C', 'C/C=C\\CC/C=C\\C', 'C/C=C/C=C/C', 'C/C=C/C=C\\C', 'C/C=C\\C=C/C',
            'C[C@H](O)CC[C@H](O)C', 'C[C@H](O)CC[C@@H](O)C', 'C[C@H](O)[C@H](O)C', 'C[C@H](O)[C@@H](O)C', 'C[C@H](N)C(=O)O', 'CC=C=CC',
            'C[C@H](O)CC.C[C@@H](O)CC', 'F/C=C/F', 'F/C=C\\F', 'C[C@]12CC[C@H](CC1)C2']
    # tri- and tetrasubstituted double bonds (every substituent slot of the sign table is used by some spelling)
    out += ['F/C(Cl)=C(/Br)I', 'F/C(Cl)=C(\\Br)I', 'C/C(F)=C(/C)CC', 'CC/C(C)=C(/C)CO', 'C/C=C(/C)CC', 'C/C=C(\\C)CC', 'OC/C(C)=C(/CC)C(C)C']
    # substituted allenes (every substituent slot of the allene sign table) and cis/trans cumulenes with an even number of chain atoms
    out += ['CC(Cl)=[C@]=CC', 'CC(Cl)=[C@@]=CC', 'NC(Br)=[C@]=C(O)C', 'CC(O)=[C@]=C(N)F', 'FC(Cl)=[C@]=C(Br)I', 'FC(Cl)=[C@@]=C(Br)I', 'C/C=C=C=C/C', 'C/C=C=C=C\\C', 'C/C(F)=C=C=C(/C)Cl',
            'F/C=C=C=C=C=C/F']
    return out


def isoh_family():
    """stereocentres and double bonds carrying an isotopic hydrogen ATOM (both toolkits keep it as an atom), the hydrogen at every position"""
    return ['[2H][C@](C)(O)CC', 'C[C@](O)([2H])CC', 'C[C@]([2H])(O)CC', 'C[C@](O)(CC)[2H]', 'N[C@@]([2H])(C)C(=O)O', '[3H][C@](F)(Cl)Br', 'F[C@]([3H])(Cl)Br', 'C[C@@]([2H])(O)c1ccccc1',
            'C[C@]1([2H])CCCO1', '[2H][C@](F)(Cl)C', '[2H]/C(C)=C/C', 'C/C([2H])=C/C', '[2H]/C(C)=C(/[2H])CC']


def interdependent_family():
    """stereo elements that are stereogenic only because other elements are labelled (pseudo-asymmetric centres, double bonds between labelled centres),
    every label combination written out"""
    out = []
    marks = ('@', '@@')
    for a in marks:
        for b in marks:
            for c in marks:
                out.append('C[C%sH](O)[C%sH](F)[C%sH](O)C' % (a, b, c))
                out.append('C[C%sH](O)C[C%sH](F)C[C%sH](O)C' % (a, b, c))
    for a in marks:
        for x, y in (('/', '/'), ('/', '\\'), ('\\', '\\')):
            out.append('C/C=C%s[C%sH](F)%sC=C/C' % (x, a, y))
    for a in marks:
        for b in marks:
            for x in ('/', '\\'):
                out.append('C[C%sH](O)/C=C%s[C%sH](O)C' % (a, x, b))
                out.append('C[C%sH](O)C(=C)[C%sH](O)C' % (a, b))
    out += list(interdependent_trisubstituted())
    return sorted(set(out))


def interdependent_trisubstituted():
    """{text: number of labels}: a carbinol centre between two constitutionally equal TRI-substituted double bonds; the centre is stereogenic exactly when
    the two arms differ in configuration (hand-asserted: arms equal <=> the two marks next to the centre are equal)"""
    out = {}
    for a in ('@', '@@'):
        for x in ('/', '\\'):
            for y in ('/', '\\'):
                out['C/C(F)=C%s[C%sH](O)%sC=C(F)/C' % (x, a, y)] = 3 if x != y else 2
                out['CC/C(C)=C%s[C%sH](Cl)%sC=C(C)/CC' % (x, a, y)] = 3 if x != y else 2
    return out


def tautomer_stereo_family():
    """stereo labels sitting on or next to groups that tautomerise (the label has to be dropped or kept consistently when the double bond moves)"""
    return ['C/C(=N/O)NC', 'C/C(=N\\O)NC', 'O/N=C(\\C)CC', 'C/C=C(/C)O', 'C/C=C(\\C)O', 'C/C=C/C(C)=O', 'C/C=C\\C(C)=O', 'CC(=O)[C@H](C)CC', 'C[C@H](O)C(C)=O', 'C/N=C(/C)NC',
            'C/N=C(\\C)N(C)C', 'O=C1CC[C@H](C)C1', 'C/C=C/C=C(/C)O', 'N/C(C)=C/C(C)=O', 'C/C(O)=C/C(C)=O', 'CC(=O)/C=C(/C)N', 'C[C@H]1CC(=O)C=C1', 'C/C=C1/CCCC1=O', 'O/N=C1/CC[C@H](C)C1',
            'C/C(=N/N)C(C)=O', 'C/C(=N\\NC)/C=C/C', 'C[C@H](N)C(=N)O', 'C/C(S)=C/C', 'C/C=C(/C)S', 'O/C(=C/[C@H](C)CC)C',
            # ring carbonyls where the keto-enol walk forks (quinones, ene-diones in rings)
            'O=C1C=CC(=O)C=C1', 'O=C1C=CC=CC1=O', 'CC1=CC(=O)C=CC1=O', 'O=C1CCC(=O)C=C1', 'O=C1C=CC(=O)c2ccccc12', 'O=C1CC(=O)C=C1']
