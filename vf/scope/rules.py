"""Instantiate SMARTS rule patterns (QueryContainer) of the built-in tables as concrete molecules, so that each rule fires."""
import itertools


def tables():
    """(table name, index, pattern) for every standardisation / tautomer / aromatic rule table"""
    from chython.algorithms.standardize import _groups, _metal_organics, _charged
    out = []
    for name, tbl in (('double_rules', _groups.double_rules), ('single_rules', _groups.single_rules), ('metal_rules', _metal_organics.rules)):
        for i, r in enumerate(tbl):
            out.append((name, i, r[0]))
    for name, tbl in (('charged_fixed', _charged.fixed_rules), ('charged_morgan', _charged.morgan_rules)):
        for i, r in enumerate(tbl):
            out.append((name, i, r[0] if isinstance(r, tuple) else r))
    return out


def instantiate(q, variants=3):
    """yield MoleculeContainers built from query q: chosen element per atom, first/other bond orders, neighbours padded with
    methyl groups up to the smallest required neighbour count. Only molecules the pattern really matches are yielded."""
    from chython import MoleculeContainer
    from chython.periodictable import Element
    from chython.periodictable.base.query import AnyElement, AnyMetal, ListElement, QueryElement
    choices = []
    nodes = list(q)
    for n in nodes:
        a = q.atom(n)
        if isinstance(a, AnyMetal):
            choices.append(['Fe', 'Pt'])
        elif isinstance(a, AnyElement):
            choices.append(['C', 'N'])
        elif isinstance(a, ListElement):
            choices.append(list(a._elements)[:3])
        else:
            choices.append([a.atomic_symbol])
    bond_choices = []
    bl = list(q.bonds())
    for n, k, b in bl:
        bond_choices.append(list(b.order)[:2])
    count = 0
    for els in itertools.islice(itertools.product(*choices), 6):
        for ords in itertools.islice(itertools.product(*bond_choices), 4):
            m = MoleculeContainer()
            ok = True
            for n, sym in zip(nodes, els):
                a = q.atom(n)
                kw = {}
                ch = getattr(a, 'charge', 0)
                rad = getattr(a, 'is_radical', False)
                iso = getattr(a, 'isotope', None)
                try:
                    m.add_atom(Element.from_symbol(sym)(iso, charge=ch, is_radical=rad), n, _skip_calculation=True)
                except Exception:
                    ok = False
                    break
            if not ok:
                continue
            for (n, k, b), o in zip(bl, ords):
                m.add_bond(n, k, o, _skip_calculation=True)
            nxt = max(nodes) + 1
            for n in nodes:
                a = q.atom(n)
                want = min(a.neighbors) if a.neighbors else None
                if want is None:
                    continue
                have = len(m._bonds[n])
                for _ in range(max(0, want - have)):
                    m.add_atom('C', nxt, _skip_calculation=True)
                    m.add_bond(n, nxt, 1, _skip_calculation=True)
                    nxt += 1
            try:
                m.fix_structure()
                if q <= m:
                    count += 1
                    yield m
                    if count >= variants:
                        return
            except Exception:
                continue
