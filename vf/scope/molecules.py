"""D(n,k): decorated small molecules as plain specs (no chython objects).

spec = {'atoms': [ (symbol, charge, radical, isotope) ... ]  (index = vertex 0..n-1),
        'bonds': [ (a, b, order) ... ], 'tag': str}
Default decoration: all carbon, single bonds, neutral. Deviations: element swap, bond order 2/3, charge +-1, radical,
isotope, explicit hydrogen neighbour. All skeleton x (<= k deviations) combinations are produced (first deviation only on
orbit representatives of the skeleton, which loses nothing up to isomorphism)."""
import itertools

from . import skeletons
from ..oracle import iso

ELEMENTS_Q = ['N', 'O', 'S', 'F', 'Cl', 'P', 'B']
ELEMENTS_T = ELEMENTS_Q + ['Si', 'Se', 'Br', 'I']
ISO = {'C': 13, 'N': 15, 'O': 18, 'H': 2}


def deviations(n, edges, elements, with_h=True, with_iso=True, orders=(2, 3)):
    """list of atomic deviations: ('el', v, sym) ('bo', ei, order) ('ch', v, c) ('rad', v) ('iso', v) ('H', v)"""
    dv = []
    for v in range(n):
        for e in elements:
            dv.append(('el', v, e))
    for i in range(len(edges)):
        for o in orders:
            dv.append(('bo', i, o))
    for v in range(n):
        dv.append(('ch', v, 1))
        dv.append(('ch', v, -1))
        dv.append(('rad', v))
        if with_iso:
            dv.append(('iso', v))
        if with_h:
            dv.append(('H', v))
    return dv


def compatible(a, b):
    """two deviations may be combined unless they set the same slot"""
    if a[0] == b[0] and a[1] == b[1] and a[0] in ('el', 'bo', 'ch', 'rad', 'iso'):
        return False
    return True


def apply(n, edges, devs):
    atoms = [['C', 0, False, None] for _ in range(n)]
    bonds = [[a, b, 1] for a, b in edges]
    hs = []
    for d in devs:
        if d[0] == 'el':
            atoms[d[1]][0] = d[2]
    for d in devs:
        k = d[0]
        if k == 'bo':
            bonds[d[1]][2] = d[2]
        elif k == 'ch':
            atoms[d[1]][1] = d[2]
        elif k == 'rad':
            atoms[d[1]][2] = True
        elif k == 'iso':
            atoms[d[1]][3] = ISO.get(atoms[d[1]][0])
        elif k == 'H':
            hs.append(d[1])
    for v in hs:
        atoms.append(['H', 0, False, None])
        bonds.append([v, len(atoms) - 1, 1])
    return {'atoms': [tuple(a) for a in atoms], 'bonds': [tuple(b) for b in bonds]}


def scope(nmax, k, elements=None, rmax=3, with_h=True, with_iso=True, shard=0, nshards=1, orders=(2, 3)):
    """yield specs. deterministic order; sharded by running index."""
    elements = elements or ELEMENTS_Q
    sk = skeletons.load(max(nmax, 1))
    idx = 0
    for n in range(1, nmax + 1):
        for _, edges in sk[n]:
            if len(edges) - n + 1 > rmax:
                continue
            orb, _ = iso.orbits(n, edges)
            # edge orbits: representative by (orbit pair)
            dv = deviations(n, edges, elements, with_h, with_iso, orders)
            first = []
            seen_slots = set()
            for d in dv:
                if d[0] == 'bo':
                    a, b = edges[d[1]]
                    slot = (d[0], tuple(sorted((orb[a], orb[b]))), d[2])
                else:
                    slot = (d[0], orb[d[1]]) + tuple(d[2:])
                if slot in seen_slots:
                    continue
                seen_slots.add(slot)
                first.append(d)
            combos = [()]
            if k >= 1:
                combos += [(d,) for d in first]
            if k >= 2:
                for d in first:
                    for e in dv:
                        if dv.index(e) > dv.index(d) or e not in first:
                            if compatible(d, e) and d != e:
                                combos.append((d, e))
            if k >= 3:
                for d in first:
                    for e, f in itertools.combinations(dv, 2):
                        if compatible(d, e) and compatible(d, f) and compatible(e, f) and d not in (e, f):
                            combos.append((d, e, f))
            seen = set()
            for c in combos:
                key = frozenset(c)
                if key in seen:
                    continue
                seen.add(key)
                idx += 1
                if idx % nshards != shard:
                    continue
                s = apply(n, edges, c)
                s['tag'] = 'n%d e%s %s' % (n, edges, list(c))
                yield s


def to_chython(spec, numbers=None, skip=True, atom_order=None):
    """build through chython's constructor path. numbers: list vertex->atom number (default 1..n).
    atom_order: order in which vertices are added."""
    from .. import mk
    n = len(spec['atoms'])
    numbers = numbers or list(range(1, n + 1))
    atom_order = atom_order or list(range(n))
    atoms = []
    for v in atom_order:
        sym, ch, rad, isot = spec['atoms'][v]
        kw = {}
        if ch:
            kw['charge'] = ch
        if rad:
            kw['is_radical'] = True
        if isot:
            kw['isotope'] = isot
        atoms.append((numbers[v], sym, kw))
    bonds = [(numbers[a], numbers[b], o) for a, b, o in spec['bonds']]
    return mk.build(atoms, bonds, skip=skip)


def corpus(stride=1, offset=0, limit=None):
    """the 4200 SMILES of pach/lipophilicity.csv (fixed, enumerated; stride selects always the same ones)"""
    import csv
    import os
    from ..boot import REPO
    with open(os.path.join(REPO, 'pach', 'lipophilicity.csv')) as f:
        rows = [r['smiles'] for r in csv.DictReader(f)]
    rows = rows[offset::stride]
    return rows[:limit] if limit else rows
