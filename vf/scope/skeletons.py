"""G(n): all connected simple graphs with max degree <= 4, one per isomorphism class, by vertex extension + brute-force
canonical code. Generated once into skeletons.json (committed); loader re-checks the known counts."""
import itertools
import json
import os

from ..oracle import iso

HERE = os.path.dirname(os.path.abspath(__file__))
KNOWN = {1: 1, 2: 1, 3: 2, 4: 6, 5: 21, 6: 78, 7: 353}   # connected graphs with max degree <= 4 (A??? checked by generation)


def generate(nmax):
    levels = {1: [(1, [])]}
    for n in range(2, nmax + 1):
        seen = {}
        for _, edges in levels[n - 1]:
            deg = [0] * (n - 1)
            for a, b in edges:
                deg[a] += 1
                deg[b] += 1
            free = [v for v in range(n - 1) if deg[v] < 4]
            for k in range(1, 5):
                for sub in itertools.combinations(free, k):
                    e2 = edges + [(v, n - 1) for v in sub]
                    code = iso.canon_code(n, e2)
                    if code not in seen:
                        seen[code] = (n, e2)
        levels[n] = sorted(seen.values(), key=lambda t: (len(t[1]), t[1]))
    return levels


def load(nmax=7):
    p = os.path.join(HERE, 'skeletons.json')
    with open(p) as f:
        data = json.load(f)
    out = {}
    for n in range(1, nmax + 1):
        gs = [(n, [tuple(e) for e in edges]) for edges in data[str(n)]]
        assert len(gs) == KNOWN[n], (n, len(gs))
        out[n] = gs
    return out


if __name__ == '__main__':
    lv = generate(7)
    for n in lv:
        print(n, len(lv[n]))
        assert len(lv[n]) == KNOWN[n]
    json.dump({str(n): [edges for _, edges in lv[n]] for n in lv}, open(os.path.join(HERE, 'skeletons.json'), 'w'))
