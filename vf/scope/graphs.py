"""Labelled-graph scopes (pure Python, no chython)."""
import itertools


def pairs(n):
    return list(itertools.combinations(range(1, n + 1), 2))


def labelled_connected(n, rmin, rmax, maxdeg=4, shard=0, nshards=1):
    """every labelled connected graph on vertices 1..n with rmin <= cyclomatic <= rmax and max degree <= maxdeg.
    Enumerated as edge subsets of K_n; subsets with index % nshards == shard. Yields (bits, edge list)."""
    pr = pairs(n)
    npr = len(pr)
    emin, emax = n - 1 + rmin, n - 1 + rmax
    if emax > npr:
        emax = npr
    for bits in range(shard, 1 << npr, nshards):
        c = bits.bit_count()
        if c < emin or c > emax:
            continue
        deg = [0] * (n + 1)
        edges = []
        ok = True
        for i in range(npr):
            if bits >> i & 1:
                a, b = pr[i]
                deg[a] += 1
                deg[b] += 1
                if deg[a] > maxdeg or deg[b] > maxdeg:
                    ok = False
                    break
                edges.append((a, b))
        if not ok or 0 in deg[1:]:
            continue
        adj = {i: [] for i in range(1, n + 1)}
        for a, b in edges:
            adj[a].append(b)
            adj[b].append(a)
        seen = {1}
        st = [1]
        while st:
            x = st.pop()
            for y in adj[x]:
                if y not in seen:
                    seen.add(y)
                    st.append(y)
        if len(seen) != n:
            continue
        yield bits, edges


def labelled_connected_by_size(n, rmin, rmax, maxdeg=4, shard=0, nshards=1):
    """same scope but enumerated by itertools.combinations of edge count (efficient when 2^C(n,2) is large)."""
    pr = pairs(n)
    idx = 0
    for ne in range(n - 1 + rmin, min(n - 1 + rmax, len(pr)) + 1):
        for comb in itertools.combinations(pr, ne):
            idx += 1
            if idx % nshards != shard:
                continue
            deg = [0] * (n + 1)
            ok = True
            for a, b in comb:
                deg[a] += 1
                deg[b] += 1
                if deg[a] > maxdeg or deg[b] > maxdeg:
                    ok = False
                    break
            if not ok or 0 in deg[1:]:
                continue
            adj = {i: [] for i in range(1, n + 1)}
            for a, b in comb:
                adj[a].append(b)
                adj[b].append(a)
            seen = {1}
            st = [1]
            while st:
                x = st.pop()
                for y in adj[x]:
                    if y not in seen:
                        seen.add(y)
                        st.append(y)
            if len(seen) != n:
                continue
            yield idx, list(comb)


def adj_of(n_or_nodes, edges):
    nodes = range(1, n_or_nodes + 1) if isinstance(n_or_nodes, int) else n_or_nodes
    adj = {i: set() for i in nodes}
    for e in edges:
        a, b = e[0], e[1]
        adj[a].add(b)
        adj[b].add(a)
    return adj


# ---------------------------------------------------------------- numbering families

def gen_perms(nodes):
    """GEN family of renumberings of `nodes` (list): identity, reversal, all rotations, all adjacent
    transpositions. Returns list of dicts old->new (new numbers are the same number set)."""
    nodes = list(nodes)
    n = len(nodes)
    out = []
    seen = set()

    def add(seq):
        t = tuple(seq)
        if t not in seen:
            seen.add(t)
            out.append(dict(zip(nodes, seq)))
    add(nodes)
    add(nodes[::-1])
    for k in range(1, n):
        add(nodes[k:] + nodes[:k])
    for i in range(n - 1):
        s = list(nodes)
        s[i], s[i + 1] = s[i + 1], s[i]
        add(s)
    return out


def all_perms(nodes):
    nodes = list(nodes)
    return [dict(zip(nodes, p)) for p in itertools.permutations(nodes)]
