"""Import hook: serve chython's three Cython modules from the pyx model when no compiled extension exists.

The model is re-derived from the .pyx text of the working tree on every import (i.e. once per process)."""
import importlib.abc
import importlib.machinery
import importlib.util
import os
import sys

NAMES = {
    'chython.containers._pack_v2': 'chython/containers/_pack_v2.pyx',
    'chython.containers._unpack_v0v2': 'chython/containers/_unpack_v0v2.pyx',
    'chython.algorithms._isomorphism': 'chython/algorithms/_isomorphism.pyx',
}
served = {}
ISO = 'chython.algorithms._isomorphism'
iso_enabled = [bool(__import__('os').environ.get('VERIF_PYX_ISO'))]


def enable_iso(on=True):
    """the bit-mask matcher model is opt-in (C09): without a compiled extension the library itself falls back to the
    pure-Python matcher, and that is the behaviour every other check must see."""
    iso_enabled[0] = on
    if not on:
        sys.modules.pop(ISO, None)


class _Loader(importlib.abc.Loader):
    def __init__(self, path):
        self.path = path

    def create_module(self, spec):
        return None

    def exec_module(self, module):
        from . import translate
        ns, text = translate.translate(self.path, {'__name__': module.__name__})
        for k, v in ns.items():
            if not k.startswith('__'):
                setattr(module, k, v)
        module.__pyxmodel_text__ = text
        module.__pyxmodel__ = True
        served[module.__name__] = self.path


class _Finder(importlib.abc.MetaPathFinder):
    def find_spec(self, fullname, path, target=None):
        rel = NAMES.get(fullname)
        if rel is None or (fullname == ISO and not iso_enabled[0]):
            return None
        from .. import boot
        # a really compiled extension wins
        for f in sys.meta_path:
            if f is self:
                continue
            try:
                spec = f.find_spec(fullname, path, target)
            except Exception:
                spec = None
            if spec is not None:
                return None
        p = os.path.join(boot.REPO, rel)
        if not os.path.exists(p):
            return None
        return importlib.util.spec_from_loader(fullname, _Loader(p), origin=p)


_finder = None


def install():
    global _finder
    if _finder is None:
        _finder = _Finder()
        sys.meta_path.append(_finder)
