"""throw-away feasibility probe for the pyx -> python-with-C-semantics translation (NOT framework code)"""
import re, ast, sys, math, struct, io, tokenize

CT = {  # ctype -> (bits, signed) ; None bits = float
 'char': (8, True), 'unsigned char': (8, False), 'short': (16, True), 'unsigned short': (16, False),
 'int': (32, True), 'unsigned int': (32, False), 'unsigned long long': (64, False), 'long long': (64, True),
 'bint': (32, True), 'double': (None, None), 'Py_ssize_t': (64, True)}
PYT = {'object', 'dict', 'list', 'tuple', 'bytes'}
STRUCTS = {}   # name -> [(field, ctype)]
_CS = {}


def csize(ct):
    r = _CS.get(ct)
    if r is None:
        r = _CS[ct] = _csize(ct)
    return r


def _csize(ct):
    ct = ct.strip()
    if ct.endswith('*'): return 8
    if ct in STRUCTS: return sum(csize(t) for _, t in STRUCTS[ct])   # packed
    return CT[ct][0] // 8
FMT = {'unsigned long long': 'Q', 'unsigned int': 'I', 'unsigned char': 'B', 'unsigned short': 'H', 'int': 'i', 'bint': 'i'}
TYPE_RE = r'(?:const\s+)?(?:void|unsigned long long|unsigned char|unsigned short|unsigned int|long long|char|short|int|bint|double|object|dict|list|tuple|bytes|[a-z_]+_t)'

class Poison:
    def __repr__(self): return '<uninit>'
POISON = Poison()
class ModelViolation(Exception): pass
class ModelLimit(Exception):
    """the mathematical value of a compound C expression left the promoted C type: the model refuses to guess what C does"""
def CHK(v, w):
    if isinstance(v, int) and not (-(1 << (w - 1)) <= v < (1 << w)): raise ModelLimit('intermediate value %d exceeds %d-bit C arithmetic' % (v, w))
    return v

def conv(ct, v, from_py):
    if isinstance(v, Poison): raise ModelViolation('read of uninitialised memory')
    if ct in PYT or ct.endswith('*') or ct in STRUCTS: return v
    bits, signed = CT[ct]
    if bits is None: return float(v)
    if ct == 'bint': return 1 if v else 0
    if isinstance(v, float):
        v = int(v)  # C truncation
    v = int(v)
    lo, hi = (-(1 << (bits-1)), (1 << (bits-1)) - 1) if signed else (0, (1 << bits) - 1)
    if from_py and not (lo <= v <= hi): raise OverflowError(f'value {v} does not fit {ct}')
    v &= (1 << bits) - 1
    if signed and v >> (bits-1): v -= 1 << bits
    return v

class CArray:
    def __init__(self, ct, n, init=None):
        self.ct, self.a = ct, [POISON]*n if init is None else list(init)
    def __getitem__(self, i):
        if isinstance(i, slice): return bytes(conv('unsigned char', x, False) for x in self.a[i])
        if not 0 <= i < len(self.a): raise ModelViolation(f'out of bounds read {i}/{len(self.a)}')
        v = self.a[i]
        if v is POISON: raise ModelViolation('read of uninitialised memory')
        return v
    def __setitem__(self, i, v):
        if isinstance(i, slice): self.a[i] = [conv(self.ct, x, True) for x in v]; return
        if not 0 <= i < len(self.a): raise ModelViolation(f'out of bounds write {i}/{len(self.a)}')
        self.a[i] = conv(self.ct, v, False)
class StructVal:
    def __init__(self, name, vals=None):
        object.__setattr__(self, '_n', name)
        for f, t in STRUCTS[name]: object.__setattr__(self, f, POISON if vals is None else vals[f])
    def __setattr__(self, k, v):
        t = dict(STRUCTS[self._n])[k]; object.__setattr__(self, k, conv(t, v, False))
    def __getattribute__(self, k):
        v = object.__getattribute__(self, k)
        if v is POISON: raise ModelViolation(f'read of uninitialised struct field {k}')
        return v
class Ptr:
    def __init__(self, buf, off, ct): self.buf, self.off, self.ct = buf, off, ct
    def __add__(self, n): return Ptr(self.buf, self.off + n * csize(self.ct), self.ct)
    def __getitem__(self, i):
        o = self.off + i * csize(self.ct)
        if o < 0 or o + csize(self.ct) > len(self.buf): raise ModelViolation(f'out of bounds pointer read at {o}')
        if self.ct in STRUCTS:
            vals = {}
            for f, t in STRUCTS[self.ct]:
                vals[f] = struct.unpack_from('<' + FMT[t], self.buf, o)[0]; o += csize(t)
            return StructVal(self.ct, vals)
        return struct.unpack_from('<' + FMT[self.ct], self.buf, o)[0]
def OFF(arr, i):
    if isinstance(arr, Ptr): return arr + i
    if isinstance(arr, (bytes, bytearray, memoryview)): return Ptr(bytes(arr), i, 'unsigned char')
    return Off(arr, i)
class Off:   # &arr[i]
    def __init__(self, arr, off): self.arr, self.off = arr, off
    def __getitem__(self, i): return self.arr[self.off+i]
    def __setitem__(self, i, v): self.arr[self.off+i] = v
class Ref:
    def __init__(self, fr, name): self.fr, self.name = fr, name
class Frame:
    def __init__(self, types):
        object.__setattr__(self, '_t', types)
        for k in types: object.__setattr__(self, k, POISON)
    def __getattribute__(self, k):
        v = object.__getattribute__(self, k)
        if v is POISON: raise ModelViolation(f'read of uninitialised variable {k}')
        return v
def SETC(fr, k, v): object.__setattr__(fr, k, conv(object.__getattribute__(fr, '_t')[k], v, False)); return v
def SETL(fr, k, v):
    """loop variable of a C-typed for/range: a value that does not fit the declared type means the C loop itself would misbehave -- the model stops"""
    try:
        object.__setattr__(fr, k, conv(object.__getattribute__(fr, '_t')[k], v, True))
    except OverflowError as e:
        raise ModelLimit('loop variable %s: %s' % (k, e))
    return v
def SETP(fr, k, v): object.__setattr__(fr, k, conv(object.__getattribute__(fr, '_t')[k], v, True)); return v
def CAST(ct, v):
    if ct.endswith('*'):
        et = ct[:-1].strip()
        if isinstance(v, Ptr): return Ptr(v.buf, v.off, et)
        return v if not isinstance(v, int) else CArray(et, v // csize(et))
    return conv(ct, v, False)
def CDIV(a, b):
    q = abs(a)//abs(b); return q if (a >= 0) == (b >= 0) else -q
def frexp(x, ref): m, e = math.frexp(x); SETC(ref.fr, ref.name, e); return m
RT = dict(SETL=SETL, CHK=CHK, ModelLimit=ModelLimit, ModelViolation=ModelViolation, POISON=POISON, CArray=CArray, Off=Off, Ref=Ref, Frame=Frame, SETC=SETC, SETP=SETP, CAST=CAST, CDIV=CDIV,
          frexp=frexp, ldexp=math.ldexp, PyMem_Malloc=lambda n: n, PyMem_Free=lambda p: None,
          memset=lambda arr, v, n: arr.a.__setitem__(slice(0, n // csize(arr.ct)), [v]*(n // csize(arr.ct))), sizeof=csize,
          OFF=OFF, Ptr=Ptr, StructVal=StructVal, _PyDict_NewPresized=lambda n: {})

def pre(src):
    """line pass -> python text + per-function type table"""
    out, ftypes, cur, gl = [], {}, None, {}
    lines = src.split('\n'); i = 0
    while i < len(lines):
        l = lines[i]; s = l.strip(); ind = l[:len(l)-len(l.lstrip())]
        i += 1
        if not s or s.startswith('#'): out.append(l); continue
        if s.startswith('cdef '): s = re.sub(r'\s+#.*$', '', s)
        if s.startswith(('cimport ', 'from cpython', 'from libc')) or s.startswith('@cython.'): continue
        if s.startswith('cdef extern from'):
            while i < len(lines) and (not lines[i].strip() or lines[i].startswith(' ')): i += 1
            continue
        m = re.match(r'cdef packed struct (\w+):$', s)
        if m:
            fields = []
            while i < len(lines) and lines[i].startswith(' ') and lines[i].strip():
                mm = re.match(r'\s*(.*?)\s*(\*?)(\w+)$', lines[i]); fields.append((mm.group(3), mm.group(1).strip() + ('*' if mm.group(2) else ''))); i += 1
            STRUCTS[m.group(1)] = fields; continue
        if s.startswith('def ') and not s.endswith(':'):
            while not s.endswith(':'): s += ' ' + lines[i].strip(); i += 1
        m = re.match(r'def (\w+)\((.*)\):$', s)
        if m and not ind:
            cur = m.group(1); ftypes[cur] = {}
            args = []
            for a in m.group(2).split(','):
                a = a.strip().replace(' not None', '')
                mm = re.match(r'(.*?)\s*(\w+)$', a); args.append(mm.group(2))
            out.append(f'def {cur}({", ".join(args)}):'); out.append(f'    _v = Frame(__types__[{cur!r}])'); continue
        m = re.match(rf'cdef ({TYPE_RE})\s*\*?\s*(\w+)\((.*)\):$', s)
        if m and not ind:   # cdef function
            cur = m.group(2); ftypes[cur] = {}; args = []; body = [f'    _v = Frame(__types__[{cur!r}])']
            for a in m.group(3).split(','):
                mm = re.match(rf'\s*({TYPE_RE})\s*(\*?)\s*(\w+)$', a); t, st, n = mm.groups()
                args.append('_a_'+n)
                if st: ftypes[cur][n] = 'object'; body.append(f'    SETP(_v, {n!r}, _a_{n})')
                else: ftypes[cur][n] = t; body.append(f'    SETC(_v, {n!r}, _a_{n})')
            out.append(f'def {cur}({", ".join(args)}):'); out += body; continue
        m = re.match(rf'cdef ({TYPE_RE})\[(\d+)\] (\w+)$', s)
        if m:
            t, n, name = m.groups()
            if ind: ftypes[cur][name] = 'object'; out.append(f'{ind}{name} = CArray({t!r}, {n})')
            else: gl[name] = t; out.append(f'{name} = CArray({t!r}, {n})')
            continue
        m = re.match(rf'cdef ({TYPE_RE})\s+(.*)$', s)
        if m:
            t, rest = m.groups(); t = t.replace('const ', '')
            for d in re.split(r',\s*(?![^()]*\))', rest):
                d = d.strip(); ptr = d.startswith('*'); d = d.lstrip('*')
                name, _, init = d.partition('=')
                name = name.strip()
                if ind:
                    if t in STRUCTS and not ptr:
                        out.append(f'{ind}{name} = StructVal({t!r})'); continue
                    ftypes[cur][name] = 'object' if (ptr or t in PYT) else t
                    if init.strip(): out.append(f'{ind}{name} = {init.strip()}')
                else:
                    gl[name] = t
            continue
        if re.match(r'\w+\[:\] = \[', s):   # module-level array fill, may span lines
            while not lines[i-1].rstrip().endswith(']'): s += ' ' + lines[i].strip(); i += 1
            out.append(s); continue
        out.append(l)
    return '\n'.join(out), ftypes

def casts(text):
    text = re.sub(r'sizeof\(([a-z_ ]+)\)', lambda m: f'sizeof({m.group(1)!r})', text)
    # <T> primary  ->  CAST('T', primary)   ;   &name -> Ref ; &arr[expr] -> Off(arr, expr)
    def repl(m):
        t = m.group(1).strip(); return f'CAST({t!r}, '
    res = []
    for line in text.split('\n'):
        line = re.sub(r'&([\w.]+)\[([^\]]+)\]', r'OFF(\1, \2)', line)
        line = re.sub(r'&(\w+)\b', r'Ref(_v, "\1")', line)
        while True:
            m = re.search(r'<\s*((?:unsigned |long )*(?:char|short|int|long|double|bint)\s*\*?|\w+_t\s*\*?)\s*>\s*', line)
            if not m: break
            j = m.end(); depth = 0; k = j
            # primary: identifier/attr + trailers
            mm = re.match(r'[A-Za-z_][\w.]*', line[k:]); k += mm.end() if mm else 0
            while k < len(line) and line[k] in '([':
                close = ')' if line[k] == '(' else ']'; d = 0
                while True:
                    if line[k] in '([': d += 1
                    if line[k] in ')]': d -= 1
                    k += 1
                    if d == 0: break
            ct = re.sub(r'\s*\*', '*', m.group(1).strip())
            line = line[:m.start()] + f'CAST({ct!r}, {line[j:k]})' + line[k:]
        res.append(line)
    return '\n'.join(res)

INTS = {k for k, (b, s) in CT.items() if b}
class T(ast.NodeTransformer):
    def __init__(self, types): self.types = types
    def ty(self, n):
        if isinstance(n, ast.Constant): return 'int' if isinstance(n.value, int) else 'double' if isinstance(n.value, float) else 'object'
        if isinstance(n, ast.Name):
            t = self.types.get(n.id, 'object')
            return 'int' if t in INTS else t if t == 'double' else 'object'
        if isinstance(n, ast.BinOp):
            a, b = self.ty(n.left), self.ty(n.right)
            if 'object' in (a, b): return 'object'
            if 'double' in (a, b): return 'double'
            return 'int'
        if isinstance(n, ast.UnaryOp): return self.ty(n.operand)
        if isinstance(n, ast.Call) and isinstance(n.func, ast.Name) and n.func.id == 'CAST':
            t = n.args[0].value
            return 'int' if t in INTS else 'double' if t == 'double' else 'object'
        if isinstance(n, ast.Call) and isinstance(n.func, ast.Name) and n.func.id in ('len',): return 'object'
        if isinstance(n, ast.Subscript) and isinstance(n.value, ast.Name) and n.value.id in ('data', 'seen', 'orders', 'connections', 'neighbors', 'mapping', 'common_isotopes', 'p'): return 'int'
        if isinstance(n, ast.Compare): return 'int'
        return 'object'
    def visit_Name(self, n):
        if n.id in self.types and isinstance(n.ctx, ast.Load):
            return ast.copy_location(ast.Attribute(ast.Name('_v', ast.Load()), n.id, ast.Load()), n)
        return n
    def store(self, tgt, val_node, val_ty):
        fn = 'SETP' if val_ty == 'object' else 'SETC'
        return ast.Expr(ast.Call(ast.Name(fn, ast.Load()), [ast.Name('_v', ast.Load()), ast.Constant(tgt.id), val_node], []))
    def visit_Assign(self, n):
        vt = self.ty(n.value)
        val = self.visit(n.value)
        outs = []
        if len(n.targets) > 1:  # a = b = 0
            tmp = ast.Name('_tmp', ast.Store()); outs.append(ast.Assign([tmp], val)); val = ast.Name('_tmp', ast.Load())
        for tg in n.targets:
            if isinstance(tg, ast.Name) and tg.id in self.types: outs.append(self.store(tg, val, vt))
            elif isinstance(tg, ast.Tuple):
                names = [f'_u{i}' for i in range(len(tg.elts))]
                outs.append(ast.Assign([ast.Tuple([ast.Name(x, ast.Store()) for x in names], ast.Store())], val))
                ets = [self.ty(e) for e in n.value.elts] if isinstance(n.value, ast.Tuple) else ['object']*len(names)
                for e, nm, et in zip(tg.elts, names, ets):
                    if isinstance(e, ast.Name) and e.id in self.types: outs.append(self.store(e, ast.Name(nm, ast.Load()), et))
                    else: outs.append(ast.Assign([self.visit(e)], ast.Name(nm, ast.Load())))
            else: outs.append(ast.Assign([self.visit(tg)], val))
        return [ast.copy_location(o, n) for o in outs]
    def visit_AugAssign(self, n):
        return self.visit_Assign(ast.copy_location(ast.Assign([n.target], ast.BinOp(ast.copy_location(ast.Name(n.target.id, ast.Load()), n) if isinstance(n.target, ast.Name) else n.target, n.op, n.value)), n))
    def visit_BinOp(self, n):
        a, b = self.ty(n.left), self.ty(n.right)
        n = self.generic_visit(n)
        if isinstance(n.op, ast.Div) and a == 'int' and b == 'int':
            return ast.copy_location(ast.Call(ast.Name('CDIV', ast.Load()), [n.left, n.right], []), n)
        if a == 'int' and b == 'int' and isinstance(n.op, (ast.LShift, ast.Add, ast.Mult, ast.Sub)):
            w = 64 if self.wide(n) else 32
            return ast.copy_location(ast.Call(ast.Name('CHK', ast.Load()), [n, ast.Constant(w)], []), n)
        return n
    def wide(self, n):
        for x in ast.walk(n):
            nm = x.attr if isinstance(x, ast.Attribute) else x.id if isinstance(x, ast.Name) else None
            if nm and 'long long' in str(self.types.get(nm, '')): return True
            if isinstance(x, ast.Constant) and isinstance(x.value, int) and x.value >= (1 << 31): return True
        return False
    def visit_For(self, n):
        if isinstance(n.target, ast.Name) and n.target.id in self.types:
            name = n.target.id; n.target = ast.Name('_it_'+name, ast.Store())
            n.body.insert(0, ast.Expr(ast.Call(ast.Name('SETL', ast.Load()), [ast.Name('_v', ast.Load()), ast.Constant(name), ast.Name('_it_'+name, ast.Load())], [])))
        elif isinstance(n.target, ast.Tuple):
            pre = []
            for k, e in enumerate(n.target.elts):
                if isinstance(e, ast.Name) and e.id in self.types:
                    pre.append(self.store(e, ast.Name('_it_'+e.id, ast.Load()), 'object')); n.target.elts[k] = ast.Name('_it_'+e.id, ast.Store())
            n.body = pre + n.body
        return self.generic_visit(n)

def translate(path, inject):
    src = open(path).read()
    text, ftypes = pre(src)
    text = casts(text)
    tree = ast.parse(text)
    for fn in tree.body:
        if isinstance(fn, ast.FunctionDef) and fn.name in ftypes:
            tr = T({k: v for k, v in ftypes[fn.name].items()})
            # int-typed names for inference
            tr.types = ftypes[fn.name]
            fn.body = [x for st in fn.body for x in (lambda r: r if isinstance(r, list) else [r])(tr.visit(st))]
    ast.fix_missing_locations(tree)
    ns = dict(RT); ns['__types__'] = ftypes; ns.update(inject)
    exec(compile(tree, path, 'exec'), ns)
    return ns, text

if __name__ == '__main__':
    ns, text = translate(sys.argv[1], {})
    print(text[:3000])
