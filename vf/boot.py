"""Bootstrap: make the *working tree* of /repo importable and usable in this sandbox.

* puts REPO (default /repo, override VERIF_REPO) first on sys.path and refuses to continue
  if chython is imported from anywhere else;
* patches CachedMethods 0.2.0 (class_cached_property.__get__ reads obj.__dict__ on slotted
  objects) -- a dependency regression, not a chython property, see DESIGN.md section 1;
* installs an import hook that serves the three Cython modules from the pyx model
  (vf.pyxmodel) when no compiled extension exists.
"""
import os
import sys

REPO = os.environ.get('VERIF_REPO', '/repo')
VERIF = os.path.dirname(os.path.dirname(os.path.abspath(__file__)))

_done = False


def _shim_cached_methods():
    import CachedMethods as CM
    S = CM._SENTINEL

    class _Slotted:
        __slots__ = ()
        __class_cache__ = {}

        @CM.class_cached_property
        def probe(self):
            return 1
    try:
        _Slotted().probe
        return False  # installed version tolerates slotted objects: nothing to do
    except AttributeError:
        pass

    def __get__(self, obj, cls):
        if obj is None:
            return self
        d = getattr(obj, '__dict__', None)
        if d is not None:
            v = d.get(self.name, S)
            if v is not S:
                return v
        cc = cls.__class_cache__.get(cls)
        if cc is None:
            cc = cls.__class_cache__[cls] = {}
        v = cc.get(self.name, S)
        if v is S:
            v = CM._freeze(self.func(obj))
            cc[self.name] = v
        if d is not None:
            d[self.name] = v
        return v
    CM.class_cached_property.__get__ = __get__
    return True


def boot(pyx=True):
    global _done
    if _done:
        return
    if REPO in sys.path:
        sys.path.remove(REPO)
    sys.path.insert(0, REPO)
    if VERIF not in sys.path:
        sys.path.insert(1, VERIF)
    sys.dont_write_bytecode = True
    _shim_cached_methods()
    if pyx:
        try:
            from vf.pyxmodel import hook
            hook.install()
        except ImportError:
            pass
    import chython
    f = os.path.realpath(chython.__file__)
    if not f.startswith(os.path.realpath(REPO) + os.sep):
        raise RuntimeError('chython imported from %s, not from %s' % (f, REPO))
    _done = True


def repo_head():
    import subprocess
    try:
        h = subprocess.run(['git', '-C', REPO, 'rev-parse', 'HEAD'], capture_output=True, text=True).stdout.strip()
        d = subprocess.run(['git', '-C', REPO, 'status', '--porcelain', '--untracked-files=no'], capture_output=True, text=True).stdout.strip()
        return h + ('+dirty' if d else '')
    except Exception:
        return 'unknown'
