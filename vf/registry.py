"""One table from which MANIFEST.json is generated (bin/mkmanifest)."""
CHECKS = {}


def reg(pid, text, note, technique, design_ref, thorough=True):
    CHECKS[pid] = dict(text=text, note=note, technique=technique, design_ref=design_ref, thorough=thorough)


reg('C06',
    'Every labelled connected graph with <=7 atoms, 1..5 rings, degree<=4 (791 015 graphs; thorough adds n=8 with <=3 rings) is pushed through '
    'the real ring-perception code and judged by an independent Horton/GF(2) minimum-cycle-basis oracle: count, simple cycles, independence, '
    'minimum size multiset, atom/bond ring marks, ring-size marks, components. Enumerating all labelled graphs is enumerating all numberings, '
    'so numbering independence is decided inside the bound, not sampled. Ring assemblies, macrocycles 9..70 and test/cycle.sdf under the GEN '
    'renumbering family extend the scope beyond 7 atoms (bounded, enumerated completely).',
    'Trusted: the oracle in vf/oracle/cycles.py (matroid-greedy MCB over Horton candidates; bridges by brute force). Molecules above 8 atoms are '
    'covered only by the deterministic assembly families. Out of domain by the property text: theta cores whose three bridges have >=3 bonds, '
    'cyclomatic number >=6 on <=7 atoms.',
    'explicit bounded-exhaustive state enumeration (all labelled graphs n<=7/8) on the real implementation vs. reference model',
    'DESIGN.md s5 C06')

reg('C13',
    'Explicit-state breadth-first search over histories of public edit calls (add/delete atom and bond, charge/radical edits in transactions, '
    'multi-edit transactions, transactions that raise, calls that must fail, remap, copy, substructure, union, in-place union, stereo edits) on '
    'small seed molecules. The environment choice between events -- which derived values are read (all / reversed / none / exactly one of 12) -- is '
    'explored with a deviation bound, so every stale-cache pattern within the bound is visited. In every state: adjacency symmetry and object '
    'sharing, 29 derived values equal to those of a molecule rebuilt from scratch, transaction atomicity against the pre-state snapshot, '
    'source/result independence for copy/substructure/union. States are deduplicated on (raw atoms and bonds in insertion order, stereo marks, '
    'transaction bookkeeping, populated cache keys).',
    'Trusted: the rebuilt molecule (fresh add_atom/add_bond in the same insertion order) as reference for derived values; this decides coherence, '
    'not correctness of the derived values themselves (C01-C06 do that). Bounds: quick depth 3 (<=4 atoms, <=1 charged/radical atom) with default '
    'reads plus depth 2 with <=1 read deviation (none / exactly one of 9 values); thorough depth 4 (<=4 atoms) plus depth 3 with <=1 deviation on 11 seeds '
    'and <=2 deviations on 5 seeds. Seeds include a coordinate-bond molecule (CN~Cu). Medium seeds (5 in quick, 15 in thorough: Kekule benzene, amino acid with a stereocentre, '
    'E/Z diene, norbornane, zwitterion, spiro ketal, quinone, allene, isonitrile, Grignard, bicyclopropyl, pyrrole Kekule form, fused cyclopropane, salt): every enabled event at '
    'every position x read patterns (depth 1), and every pair of events (thorough, default reads). union is explored on both numbering paths (colliding and disjoint numbers) and the independence check covers the right operand as well as the left; every copy / substructure / union must denote the same configuration as its source on every labelled centre whose neighbourhood it retains (signs relative to ascending neighbour numbers). Long random sequences of the property text are replaced by this '
    'bounded exhaustive space.',
    'explicit-state BFS with canonical state hashing and deviation-bounded environment choices, real implementation vs rebuilt reference',
    'DESIGN.md s5 C13')

reg('C18',
    'The table space is finite and is enumerated completely: 118 elements x (no isotope + every tabulated isotope) x charge -4..+4 x radical flag, '
    'plus hydrogens None/0..6 per element. Each state is checked against a hand-written IUPAC symbol table (symbol<->number inverse, module exports), '
    'for equal key sets of the isotope tables containing the reference isotope, computable atomic masses, agreement of the common_isotopes tables in '
    'both .pyx files with mdl_isotope-16, pack->unpack through the pyx model, a decoder of the matcher bit layout written from its layout comment '
    '(one bit per field, inside the field window; the two element words as one bit per element exactly as the comment lays them out), compilable valence/saturation rule tables naming only existing elements, and Query*/Dynamic* variants. The lazily built lookup tables '
    'are explored over the order of first use: a fresh interpreter per entry point used first (Element / element class / instance / query / dynamic / reader) x every number 1..118.',
    'Trusted: the symbol list in vf/props/c18.py; the .pyx sources are executed as a mechanically derived Python model with C integer semantics '
    '(no Cython here). 19 elements whose reference isotope is missing from their tables are recorded as known findings keyed by element.',
    'complete enumeration of a finite state space (all elements x isotopes x charges x radical) on the real tables and pack/matcher encoders',
    'DESIGN.md s5 C18', thorough=False)

reg('C07',
    'All (pattern, target) pairs of two small scopes are enumerated: patterns = every decorated molecule D(<=4 atoms, <=1 deviation) plus '
    'two-component patterns, every connected induced subgraph cut from each target, and 45 SMARTS queries (ring closures, bond lists, ring/non-ring '
    'bonds, two components); targets = D(<=5,1) (thorough: D(<=6,1)) plus multi-component unions. For each pair the real matcher is run with the '
    'automorphism filter off and on, with every searching scope of <=4 target atoms (fixed sub-grid), and through <=, <, >=, is_equal, '
    'is_substructure, get_automorphism_mapping; results are compared as sets with a brute-force enumerator of injective maps (atom ==, bond ==, '
    'exact closures inside a pattern component, distinct target components for distinct pattern components).',
    'Trusted: vf/oracle/iso.py brute-force enumerator; atom/bond compatibility itself is delegated to the library == (C08 decides its meaning). '
    'Targets above 6 atoms are outside the bound. Queries use the pure-Python matcher (_cython=False); operators on queries go through the default path.',
    'bounded exhaustive enumeration of pattern x target x scope x filter on the real matcher vs brute-force reference',
    'DESIGN.md s5 C07')

reg('C17',
    'Every molecule of D(<=5 atoms, <=1 deviation; thorough <=2) under ALL atom numberings (n<=4) or the GEN family (n=5), two atom insertion '
    'orders and two bond insertion orders, plus the corpus (stride 8; thorough all 4200) under GEN renumberings, is pushed through linear/Morgan '
    'hash sets, bit sets, fingerprints and fragment dictionaries. The hash sets are compared with an independent enumerator of simple paths '
    '(canonical direction, multiplicity cap) and an iterated-neighbourhood hasher over the (min,max) 1..6 x bit-pairs 0..5 grid; folded bits with '
    'the documented {(h >> i*log2 len) & (len-1), i < active bits} over lengths 2^4..2^12 x active bits 1..4; all outputs must be equal across '
    'numberings and insertion orders. Call history: between two evaluations of six fingerprint calls the molecule is edited in place (11 operations); the second value must equal the value on a fresh copy.',
    'Trusted: vf/oracle/paths.py; built-in tuple hash as the documented hash. Fragment SMILES *texts* are compared modulo aromatic case, H counts '
    'and direction for the equality-across-numberings clause (strict difference = recorded known finding C17-linear-smiles-text); neighbourhood '
    'texts that differ only in stereo marks fall under C01 exclusion (i) and are counted as out of domain.',
    'bounded exhaustive enumeration (molecules x numberings x insertion orders x parameter grid) on the real code vs reference enumerators',
    'DESIGN.md s5 C17')

reg('C04',
    'The centre-environment product of the property is enumerated completely: 13 organic-subset elements x charge -2..+2 x radical x every multiset '
    'of <=4 bonds of order 1-3 to {H,C,N,O,F,S,Cl} (1.64 M stars; thorough adds all 118 elements with <=3 bonds), built through the public API. Every '
    'atom must carry the hydrogen count (or "no valence state") that an independent re-derivation from the raw element tables gives, check_valence() '
    'must be exactly the atoms without a state, the hand-written textbook table must agree inside its domain, and brutto/int/float/is_radical must '
    'equal plain sums over atoms. Whole molecules D(<=5,2) (thorough <=6) and the corpus (per-atom H vs RDKit, aromatic carbons as parsed and all atoms after kekule()) extend this. '
    'Every state the library reports for a main-group centre is also judged by a ladder model that never reads the tables (valence ladders by effective group = group - charge, '
    'second period without expansion): bond sum + hydrogens must be the lowest ladder state; every environment row of the exception tables of 15 main-group elements (up to 7 '
    'neighbours) is instantiated as a star for this. check_implicit(n, h) must be true exactly for the hydrogen counts for which the raw tables hold a matching state.',
    'Trusted: vf/oracle/valence.py ((a) follows the docstring semantics of _common_valences/_valences_exceptions and never calls the compiled rules; '
    '(b) hand table, uncontroversial states only; (c) ladder model with 10 hand-reviewed exceptions (elemental states, H3PO2) - a mutated table row of a metal is seen only '
    'through (a)-consistency and RDKit on the corpus). '
    'Sums are checked only for molecules in which every atom has a valence state (formula undefined otherwise).',
    'complete enumeration of the finite centre-environment space on the real implementation vs reference valence models',
    'DESIGN.md s5 C04')

reg('C19',
    'The configuration grid is enumerated completely: PYTHONHASHSEED in {0,1,2,4242,VERIF_SEED+7} x a fresh interpreter per cell x input order '
    '{forward, reversed} x evaluation mode {first, second (cached), after flush_cache(), copy taken before, copy taken after}. For every input '
    '(corpus stride, the documented functional-group inputs, an organometallic combinator, a ring/double-bond stereo family, D(<=5,1), SMARTS '
    'queries) digests of canonical strings, atom orderings, ring sets, components, fingerprints and fragment dictionaries, ordered match lists, '
    'pack bytes, atom labels and the results of canonicalize/standardize/standardize_charges/neutralize/kekule/thiele/explicify (object vs its '
    'copy vs after flush vs a cold-cache copy) must coincide over the whole grid; a scoped search sits between the evaluations so that anything it leaves in a memo is seen by the next '
    'evaluation; ring data is read first in the reversed read order; one more evaluation follows a transaction that edits, reads everything and then fails. Digests include dict and set iteration order.',
    'Trusted: five fixed seeds stand for all hash seeds; hash(mol) is excluded (string hashing is seed dependent by design). pack bytes come from '
    'the pyx model. A violation is replayed by re-running the two grid cells involved.',
    'complete enumeration of a configuration grid (hash seed x process x order x cached/uncached/copy) on the real implementation',
    'DESIGN.md s5 C19')

reg('C20',
    'Small scope: every molecule of D(<=4 atoms, <=2 deviations) over C,N,O,S,F,Cl,Br with charges, isotopes, radicals (thorough <=5 atoms) is built '
    'independently in both toolkits from one plain spec, under ALL atom numberings and insertion orders on the chython side and ALL RenumberAtoms '
    'permutations on the RDKit side; both bridge directions and both round trips are run for each. Text scope: a ring/double-bond stereo family '
    '(every label combination) and the corpus (stride 8; thorough all) as written and in Kekule form under 9 GEN renumberings, including chython '
    'molecules that came from a renumbered RDKit molecule and remapped molecules with a 2D layout. Judges: RDKit canonical isomeric SMILES or mutual '
    'chirality-aware substructure match on one side, chython canonical SMILES on the other, plus per-atom element/isotope/charge/radical/H/map number/xy and bond orders under the index map. '
    'Extras: stereocentres with an isotopic hydrogen ATOM at every position of the neighbour list (24 orders x both marks x middle/first atom x GEN numberings) and donor->metal '
    'coordinate bonds (10 donor elements x 5 metal fragments x donor-first/metal-first x 7 numberings: order 8 on the chython side, donor->metal direction and hydrogen counts on the RDKit side, both round trips). The text scope also holds the interdependent stereo family and 20 main-group / metal hydrides.',
    'Trusted: RDKit as the independent judge. Out of domain (counted, executed, not judged): RDKit-rejected inputs, inputs on which the two valence '
    'models disagree before conversion, non-carbon stereocentres, RDKit-aromatic rings outside chython aromaticity (compared through RDKit Kekule form), '
    'chython canonical strings that differ while RDKit proves identity (C01 exclusion i).',
    'bounded exhaustive enumeration (molecules x numberings on both sides x bridge directions) on the real bridge vs RDKit',
    'DESIGN.md s5 C20')

reg('C05',
    'Kekule-form inputs are enumerated from (i) a generic generator: mono- and bicyclic skeletons (5, 6, 5-6, 6-6, 5-5; thorough adds 7) x every '
    'assignment of <=2 (thorough 3) hetero positions (N, N-methyl, O, S) x every double-bond matching, (ii) a template family of six/five-membered, '
    'fused, charged (pyridinium, pyrylium, cyclopentadienide), quinoid and special rings, (iii) the corpus in Kekule form; each under a subset of '
    'the GEN renumbering family. For every input the real thiele()/kekule()/enumerate_kekule() are run and the relations of the property are '
    'checked: conservation of connectivity, charges, radicals, per-atom and total hydrogens, formula; only orders 1-3 and no valence error after '
    'kekule; thiele(kekule(t)) = t; every enumerated Kekule form valid, distinct, aromatising to the same form and containing the kekule() result; '
    'second application changes nothing; result mapped back is independent of numbering; the aromatic SMILES text of both writers (every RDKit root) '
    'reads back and kekulises to the same formula and aromatic form.',
    'Relational oracle (no reference aromaticity model): what is aromatic is not judged, only stability and conservation. Per-atom H is decided with '
    'fix_tautomers=False; the default call moving a ring-NH hydrogen is a known finding keyed by call site. Unsaturated four-membered rings are '
    'excluded from the enumerate clause (property text). The thiazinium Kekule input and the [CH-] five-ring aromatic text family are recorded as known findings.',
    'bounded exhaustive enumeration of ring systems x double-bond matchings x renumberings on the real implementation, relational oracle',
    'DESIGN.md s5 C05')

reg('C10',
    'Field-exhaustive enumeration of the format on the pyx model: every atom number 1..4095; the full products inside each shared byte (stereo kind x '
    'isotope code 0..31 x atomic number; hydrogens 0..6/None x charge -4..4 x radical); 0..15 neighbours; every bond-order assignment {1,2,3,4,8}^b '
    'for b<=5 and every one-different pattern for b=6..17 (all phases of the 3-bit packing); all 65 536 half-float bit patterns through the unpacker '
    'and value/midpoint/near-next through the packer; D(<=5,k), stereo families, polyenes/allenes and the corpus; reactions with (reactants, reagents, '
    'products) in {0..3}^3 and 255 per role incl. empty sides; legacy version-0 packs. Each case: bytes equal to an independent bit-string writer of the '
    'published layout, unpack(pack(m)) equal on raw state (numbers, dict and neighbour order, labels, stereo, half-precision xy), pack_len, '
    'chython.unpack dispatch, limits rejected; a format-limits stage drives the documented maxima (atom number 4095, 15 neighbours, 255 molecules per role, '
    'large molecules up to the 16-bit offsets) where a model integer overflow is reported as inconclusive (cap), not as a violation. Conformance: the 4200 packs published in pach/SI.zip decode, re-encode to the identical bytes and '
    'match the structure of their CSV row (traces_validated_against_impl).',
    'Trusted: vf/pyxmodel (source-derived model with C integer semantics, poison for uninitialised memory, ModelLimit on out-of-range intermediates), '
    'vf/oracle/pack_ref.py. No compiled extension exists in the sandbox; the published packs are the only traces of a real build. Role counts are '
    '{0,1,2,3,255}; molecules near the 4095-atom / 64 KiB offset boundary are not explored.',
    'model checking of a source-derived model (field-exhaustive enumeration) + conformance replay of published implementation traces',
    'DESIGN.md s3.5, s5 C10')

reg('C09',
    'The bit layout is explored field by field and pairwise: query element 1..118 (plus element lists, any-atom, any-metal) x molecule element 1..118; '
    'every element with (unspecified + every tabulated isotope)^2; charge -4..4 x radical on both sides; hydrogen specs (singletons, pairs) x 0..4/None; '
    'hybridisation subsets x 1..4; neighbour and heteroatom specs (singletons, pairs in 0..14) x 0..14 real stars; ring-size specs x real rings 3..66, 70 '
    'and spiro pairs; every pair of six fields at {min, interior, max} against the full boundary product on the molecule side; the scalar and count fields also through any-atom, element-list and any-metal query atoms (each kind has its own encoder branch); ring closures landing on '
    'every element; then SMARTS of C07/C08/C19 x D(<=5,1), cage/metallacycle targets and the corpus stride, with and without searching scope. For each '
    '(query, molecule) the mapping set of the bit-mask path (model of _isomorphism.pyx fed by the real encoders) must equal that of the pure-Python matcher.',
    'Trusted: vf/pyxmodel as the semantics of _isomorphism.pyx (packed structs, pointer casts, 64-bit masks; out-of-bounds and uninitialised reads are '
    'reported). No compiled matcher exists here and no published traces exist for it, so model fidelity rests on construction plus agreement on the '
    'explored space. Three by-design divergences are known findings keyed by call site (Lv/Ts/Og shared bit, unknown hydrogens encoded as 0, ring sizes > 65).',
    'field-exhaustive enumeration of the mask layout and of query x molecule pairs; source-derived model of the compiled matcher vs reference matcher',
    'DESIGN.md s3.5, s5 C09')

reg('C08',
    'Query atoms: 15 element specs (symbols, atomic numbers, lists incl. two-letter symbols that contain other symbols, any-atom, any-metal) x (each of 27 primitives and every pair of primitives of '
    'different kinds: D, h, r/!R, a, x, z incl. value lists) plus charges and isotopes are parsed from SMARTS text and compared, as qatom == atom and '
    'through one-atom searches, against every atom of a molecule scope (D(<=5,1), rings 3-7, fused/spiro/biphenyl, charged, isotopic, radical, '
    'organometallic, corpus stride). Query bonds: 21 bond primitives (orders, order lists, negations, ring/non-ring marks) against every bond. The '
    'expected answer is recomputed from raw atoms and bond orders only: degree, heteroatom count, hybridisation from orders, hydrogens from the '
    'element-table re-derivation, ring membership by bridges, ring sizes by an independent minimum cycle basis. Unsupported constructs and all token '
    'strings of length <=3 over a 19-token SMARTS alphabet must be rejected with the invalid-SMARTS (ValueError) error or parse. Stereo marks: tetrahedral '
    'centre texts in all 24/6 neighbour orders x both marks x middle / first-atom / fragment forms, cis/trans texts x 6 bond primitives between the marks, allene '
    'texts, and every (partly) labelled variant of 15 base molecules (ring-opening centres, fused rings, dienes, tri/tetra-substituted and ring double bonds) in '
    'every RDKit spelling (every root x 3 numberings) are used as SMARTS against every variant as target; the mapping count must equal chirality-aware RDKit '
    'matching of the SMILES reading of the same text. Query atoms built through the API: 6 kinds x 5 attributes x every value (incl. 0) as int / tuple / list, '
    'by constructor keyword and by assignment, against the same attribute oracle; query atoms copied from molecule atoms (QueryElement.from_atom with each optional attribute, '
    'QueryContainer.add_atom(atom)) for every atom of a sampled scope incl. radicals, isotopes and charges.',
    'Trusted: vf/oracle/cycles.py, vf/oracle/valence.py and the hand-written non-metal list. Ring-size primitives are judged only on molecules whose '
    'minimum cycle basis is unique (others counted as out of domain). Stereo marks: RDKit is the judge; a chiral FIRST atom with an implicit hydrogen has no '
    'documented convention in the SMARTS subset and is counted as out of domain; three-neighbour centres are read as "unnamed neighbour last"; allene marks are '
    'judged relationally against the library SMILES reader (RDKit does not read them).',
    'bounded exhaustive enumeration of primitives and primitive pairs x atom/bond environments on the real implementation vs reference attributes',
    'DESIGN.md s5 C08')

reg('C01',
    'For every molecule of D(<=5 atoms, <=1 deviation) (thorough <=6), every connected carbon skeleton with 1..4 rings on <=6 (thorough 7) atoms, and '
    'stereo, radical, multi-component, isotopic, organometallic and alternating-ring families plus the corpus stride, all descriptions inside the '
    'bound are enumerated: ALL atom numberings (n<=5/6) or the GEN family, all atom insertion orders and two bond orders through the API, every '
    'traversal of the library random-order writer (choice-point explorer over the min/sorted calls that receive the random weight; unbounded for <=8 '
    'atoms, <=1 deviation above), RDKit spellings over renumberings x roots x aromatic/Kekule, and every "which derived value is read first" order. '
    'Each description must give the same canonical string, hash and == (after kekule+thiele normalisation where the text came from the other toolkit).',
    'The two exclusions of the property are recognised independently on the input graph (vf/oracle/symmetry.py: orbits of the stereo-free automorphism '
    'group; exclusion (ii) = ring system with >= 3 rings and equivalent branching atoms whose skeleton is polyhedral (3-connected after suppressing two-coordinate atoms: prism, cube, '
    'adamantane, coronene) or that holds a saturated ring atom; planar conjugated systems such as triphenylene or biphenylene are in the domain): cases inside them are executed and counted as out of domain, never reported. Three monocyclic alternating annulenes and the writer placing a stereo double bond on a ring-closure digit inside a conjugated diene are known findings. '
    'Molecules above the small scope are covered by the text families and corpus only.',
    'bounded exhaustive enumeration of descriptions incl. stateless choice-point exploration of the random-order writer (deviation bounded)',
    'DESIGN.md s3.4, s5 C01')

reg('C02',
    'For every molecule of D(<=5,1) (thorough <=5,2), stereo / chiral-spiro / radical / multi-component / isotope families and the corpus stride, every '
    'subset of the lossless options {a, A, m, h} is combined with the canonical order and with every traversal the random-order writer can produce '
    '(choice-point explorer; all traversals up to 7 atoms, <=2 deviations up to 9, <=1 above). Each written text (with its CXSMILES block) is read '
    'back and compared with the original UNDER THE WRITTEN ATOM ORDER (parse order or :map numbers): element, isotope, charge, radical, hydrogens, bond '
    'orders, and the sign of every tetrahedral / allene / cis-trans label relative to ascending-numbered neighbours; RDKit must read the text as the '
    'same stereoisomer. Injectivity: over D(<=5,2) (thorough <=6,2) the map canonical string -> brute-force canonical code of the labelled graph is a '
    'function, and stereoisomers that RDKit distinguishes never share a string. An interdependent family (pseudo-asymmetric centres, centres/double bonds that are stereogenic only '
    'through other labels; 34 label combinations) is included so that a label can only survive through the iterative perception of the reader. The canonical text is also taken '
    'after reading smiles_atoms_order first (radicals the reader cannot re-guess included).',
    'Trusted: RDKit as the independent reader; vf/oracle/iso.py canonical codes. Signs are compared through the library sign translation on both sides '
    '(its permutation consistency is C12). Aromatic inputs are normalised (kekule+thiele) before writing. Known finding: the writer loses/inverts a '
    'cis/trans mark when a stereo double bond of a conjugated diene is written as a ring-closure bond (keyed by that traversal shape).',
    'bounded exhaustive enumeration of molecules x format options x writer traversals (stateless choice-point exploration, deviation bounded)',
    'DESIGN.md s3.4, s5 C02')

reg('C12',
    'Per centre, exhaustively: ten tetrahedral centres (4 neighbours; 3 + implicit H; 3 + explicit H at every position; ring, bridgehead, first-atom) x '
    'all 24 / 6 neighbour orders and 3-atom environments x both stored signs - the reported sign must flip exactly on odd permutations and translating '
    'back must be the inverse; cis/trans and allene centres x every choice of end substituents incl. explicit hydrogens - the sign flips exactly when one '
    'end is exchanged. Spellings: for centres, alkenes, the ring/spiro stereo family and the stereo part of the corpus, every traversal of the random-'
    'order writer (choice-point explorer; unbounded <=7 atoms) and RDKit spellings over roots x renumberings must denote, for RDKit, the same stereoisomer '
    'before and after reading. All 2^s label combinations of 12 templates x all pairs: == iff RDKit identity; labels survive exactly on stereogenic '
    'centres (C(a)(b)(c)(d) and abC=Ccd over substituent alphabets, ring double bonds of every ring size 3..12); own wedge map -> add_wedge restores '
    'every sign on RDKit 2D coordinates and RDKit reads the written MolBlock as the same stereoisomer. Every wedge that can be drawn (every heavy substituent x up/down): at 10 '
    'allenes the eight wedges must fall into the two classes given by mark x side of the substituent x terminal (geometric oracle), at tetrahedral centres the configuration must be '
    'the one RDKit derives from the same drawing. Ring-axis stereo (alkylidene-cycloalkanes, ring=ring double bonds, ring-attached allenes; not perceived by RDKit): every own '
    'spelling must be read back with the same number of labels (stereogenicity independent of numbering). Wedge geometry grid: 14 one-centre drawings (three neighbours from Y over the '
    'exact T to a fan; four neighbours: cross, skewed, collinear pairs, half plane) x 5 rotations x 3 scales x every wedge x up/down must read as RDKit reads the same MolBlock.',
    'Trusted: RDKit as independent toolkit; permutation parity (vf/oracle/parity.py). Non-carbon stereocentres are out of domain. Molecules with up to 8 '
    'stereo elements are covered through the corpus and templates with up to 4 labels only. The ring-closure-diene writer defect is a known finding shared with C01/C02.',
    'complete enumeration of neighbour permutations and bounded exhaustive enumeration of spellings (choice-point exploration) vs parity and RDKit',
    'DESIGN.md s5 C12')

reg('C15',
    'Reactions are assembled with known ground truth: reactant sets of 1-3 small molecules and multi-component salts; products = the reactants under '
    'every single edit and (stride) every compatible pair of edits from {bond order change, cleavage, formation, charge change, radical toggle} '
    '(0 edits = identical sides), with and without a reagent, plus empty-role shapes. For each: the canonical string/hash/== under every permutation '
    'inside every role; smiles(str(r)) restores roles and per-role molecule multisets incl. fragment grouping and radical blocks and is stable; the '
    'condensed graph marks exactly the edited atoms and bonds with the recorded (before, after) orders, charges and radical states, has an empty '
    'centre for identical sides, and its string is invariant under consistent GEN renumberings. A second stage enumerates role counts {0,1,2}^3 with '
    'radicals and salts in every role through the SMILES round trip.',
    'Trusted: the recorded edit list as ground truth. Reactions are built from 10 base molecules and 3 salts; larger systems are outside the bound.',
    'bounded exhaustive enumeration of reactions with constructed ground truth x role orders x renumberings on the real implementation',
    'DESIGN.md s5 C15')

reg('C14',
    'Valence-valid molecules are enumerated from D(<=4,2) (thorough <=5,2) over N,O,S,P,B,Cl with charges and radicals, every pattern of the '
    'standardisation and charge rule tables instantiated as a molecule (element, bond-order and padding variants; each instance verified to match its '
    'own pattern, so each rule fires), the documented functional-group pairs, an organometallic combinator, zwitterion / gem-dinitro / sulfur-cation / '
    'tautomerisable special cases and the corpus stride. On each: canonicalize (x fix_tautomers, keep_kekule), standardize, fix_resonance, '
    'standardize_charges, neutralize (x keep_charge), explicify/implicify_hydrogens and enumerate_tautomers. Relations checked: no exception; heavy-atom '
    'multiset unchanged; net charge and hydrogen count conserved for rearrangements, equal change for neutralisation; no valence error afterwards; '
    'derived values and atom/bond marks of the processed object equal those of a recomputed copy; op(op(m)) = op(m) on the structure; implicify o explicify '
    'and its converse are identities; op(pi m) = pi op(m) for ALL (n<=4) / GEN numberings with tautomer fixing off (on for the corpus); documented '
    'inputs give their documented outputs; tautomers conserve composition and are duplicate free. Rule instances are additionally run with gapped atom numbers '
    '(2n+5) and an azole/azolium ring scan (every N/O/S placement in five-rings x N-substituent x charge) checks the charge rules on aromatic rings. Equivariance is also run on a '
    'molecule REBUILT with reversed insertion order (remap keeps the storage order). Every tautomer is judged per atom: hydrogen count >= 0 and equal to the count its bonds imply '
    '(element-table re-derivation on the Kekule form), over a tautomer-stereo family (labels on or next to migrating double bonds) and ring-carbonyl / quinone inputs. Every memo incl. the '
    'fingerprints is populated before each operation and compared with a recomputed copy afterwards. For inputs with constitutionally equivalent atoms equivariance is required up to an '
    'automorphism of the input (outputs are one molecule); cyclopentadienide-type anions incl. benzo-fused ones are in the special cases.',
    'Relational oracle (no reference standardiser). Return values are not part of the idempotence statement. Four classes are known findings keyed by '
    'call site or input (metal amide -> dative rule adds hydrogens; azoxy-type two-pass rules; eta5-Cp numbering; one tautomer KeyError).',
    'bounded exhaustive enumeration of molecules x operations x numberings on the real implementation, relational oracle',
    'DESIGN.md s5 C14')

reg('C16',
    'Synthetic Transformer templates, one per patcher branch and per combination the property lists (identity, deletion, new atoms, element change, '
    'charge and radical setting, bond order up/down, masked atoms next to deleted atoms, deletion with detached fragments, cleavage, bond formation '
    'between components, element lists, any-atom reuse), are applied to 30 small molecules under three numberings; for EVERY match the product is '
    'compared with an independent plain-graph edit model (which atoms disappear incl. detached fragments unless masked, attributes of named atoms, '
    'replacement bonds, untouched atoms/bonds, fresh numbers for new atoms), product count = match count (distinct image sets with the filter), '
    'unique numbers, configuration of untouched stereocentres, identity template returns the input. Multi-reactant Reactor: 4 reactions x reactant '
    'pairs with colliding atom numbers x spectators x all reactant orders x renumbering x one_shot on/off: unique atom numbers over all products, '
    'spectators unchanged, valence-valid products, product set independent of order and numbering. Built-in deprotection groups and apply_all on '
    'protected molecules: unique numbers, valence validity, numbering independence. Multi-reactant Reactor vs the edit model: the 4 synthetic reactions and all 53 '
    'reactors of the prepared collections (chython.reactor.reactions: 9, chython.reactor.retro: 5) x every tuple of pool molecules (54 / 27 building blocks) that '
    'matches the patterns - the set of reported reactions must equal the edit model applied to every combination of matches of every assignment of molecules to '
    'patterns, surviving atoms keep numbers and attributes, untouched stereocentres keep their configuration; colliding numbers, reversed order and a spectator '
    'give the same set; a collection call equals the union of its reactors. Frame condition for double bonds: a labelled double bond whose ends and substituents survive unchanged keeps '
    'label and geometry (templates naming one or both alkene carbons). On aromatic N-H heterocycles in aromatic form, atoms the template does not name keep their hydrogen count and ring bonds their order, with and without the aromatic post-processing.',
    'Trusted: the edit model in vf/props/c16.py; matches come from the library matcher (C07/C08). Hydrogen counts of products are not modelled. The '
    'products of aromatic reactants are compared after the documented kekule/thiele normalisation. Multi-stage (one_shot=False) mode of the prepared collections is '
    'covered by the relational stage only.',
    'bounded exhaustive enumeration of templates x molecules x matches on the real implementation vs an independent edit model',
    'DESIGN.md s5 C16')

reg('C11',
    'Records are enumerated and pushed through every writer/reader pair {SDF V2000, SDF V3000, RDF, RDF V3000, MRV} with atom mapping on and off: '
    'Kekule molecules of D(<=4,1), charge -4..+4 (alone and next to other charged atoms), every 5th (thorough: every) element x tabulated isotopes, '
    'radicals, bond orders 1,2,3,4,8, atom numbers up to 999, stereo molecules with an RDKit 2D layout (tetrahedral, allene, cis/trans); reactions with '
    '{0,1,2}^3 molecules per role and stereo molecules in every role, several records per file; templates with interdependent centres. Compared field by field: atom order and numbers, element, '
    'isotope, charge, radical, bond orders, configuration (signs relative to ascending neighbours), roles, titles, metadata. Titles, metadata keys and '
    'values: every string of length <=3 over {a, blank, <, >, &, $, newline, -}. Damaged files: 4-record SDF and V3000 files with every line deletion '
    'and every field corruption at every position - all untouched records must be returned in order and nothing may escape the iteration. Random access: '
    'indexable files on disk, every index, negative indices and slices equal sequential reading. Other programs: RDKit-written V2000/V3000 blocks of the '
    'corpus stride and every file under /repo/test are read without an exception leaving the iteration. Mixed files: every ordered selection of 3 of 6-8 records that differ '
    'in size and in having metadata (molecules and reactions) per file - each record comes back with exactly its own metadata, indexed = sequential. Every atom and bond line of '
    'three V3000 records wrapped with the continuation mark at every column reads as the unwrapped record.',
    'Metadata values are compared modulo the reader normalisation (each line stripped, empty lines dropped); delimiter-looking lines, outer blanks in '
    'keys/titles are counted as out of domain; explicit hydrogens on stereocentres are excluded (property text). Cis/trans from 2D needs calc_cis_trans=True, which the check passes.',
    'bounded exhaustive enumeration of records x formats x field values x corruption positions on the real implementation',
    'DESIGN.md s5 C11')

reg('C03',
    'Strings are enumerated exhaustively from (1) the bracket-atom product isotope x symbol x chirality x hydrogen count x charge spelling x map '
    '(244 608 one-atom strings incl. malformed members), (2) all token strings of length <=4 (thorough 5) over a 37-token alphabet (atoms, bracket '
    'atoms, every bond symbol, directional bonds, dots, branches, one- and two-digit closures, lone % and 0, reaction arrow, CXSMILES radical and '
    'fragment blocks, SMARTS-only characters), (3) 190 curated strings per listed feature and its malformed neighbours, (4) the 4200 corpus strings '
    'and every single deletion / insertion / substitution of the shortest ones (the curated list includes atom maps repeated inside a molecule, across molecules and roles). For each string an independent recursive-descent reader decides '
    'membership and builds the reference graph; the library must return an object exactly for members, equal atom by atom in parse order (element, '
    'isotope, charge, map number, CXSMILES radicals, bond list with the implicit single/aromatic choice and ring-closure bond agreement, reaction roles '
    'and fragment grouping), and must raise a ValueError-family error for non-members - any other exception type is a violation. Where RDKit parses '
    'the string it is a third reader: same constitution and configuration, per-atom hydrogens and radicals.',
    'Trusted: vf/oracle/smiles_ref.py (OpenSMILES reading of the listed sub-language) and RDKit. Out of domain: isotopes not tabulated for the element '
    '(table data), order of a directional bond between two aromatic atoms. Three deliberate tolerances/repairs of the reader are known findings keyed by call site.',
    'bounded exhaustive enumeration of strings (token sequences, field products, single edits) on the real reader vs an independent reader',
    'DESIGN.md s5 C03')


# additions of the last strengthening round (wave e), appended to the descriptions above
_ADD = {
    'C01': 'Families added later: substituted allenes, tri/tetrasubstituted double bonds, even cumulenes, isotopic-H stereocentres (RDKit spellings are used only where RDKit carries the stereo kind), '
           'several ring-bearing components in one molecule, fused / bridged / spiro polycycles.',
    'C07': 'For targets with several components get_automorphism_mapping must return exactly the products of the automorphisms of the single components, every map injective.',
    'C09': 'Isotope x radical x charge are also driven together (four elements), since the query mask combines them in one word.',
    'C10': 'Even cumulenes with cis/trans labels and substituted allenes are part of the stereo family.',
    'C11': 'Atoms carrying two or three of isotope / radical / charge at once; files written in two sessions (the second with append=True) for every ordered pair of records.',
    'C12': 'The ring-axis / spiro family must keep both marks when read (hand-asserted stereogenic); spellings with atom maps that run against the writing order are judged like every other spelling.',
    'C16': 'Exhaustive mode with a single pattern on several inputs: the product sets are exactly the non-empty subsets of the reaction sites. A configuration requested by the replacement: every '
           'spelling of one replacement (labelled atom opening or closing a ring of the replacement) gives the same stereoisomer, through Transformer and Reactor.',
    'C17': 'The array forms of both fingerprints are compared with the bit sets over lengths x active bits, called positionally and by keyword.',
    'C18': 'Every tabulated valence state must lie inside the fixed-width fields of both codecs (hydrogens 0..4 in the matcher word, 0..6 in the pack, charge -4..4).',
    'C19': 'The normalisation block covers 10 calls incl. canonicalize(keep_kekule=True), canonicalize(fix_tautomers=False) and implicify_hydrogens.',
    'C20': 'The text scope also holds isotopic-H double bonds and bonds of unspecified type (RDKit -> chython must give order 8 and the molecule the library reads from the same text; the way back is not defined).',
    'C14': 'Atoms with explicit and implicit hydrogens at once, ring bonds that become coordinate bonds and unbalanced zwitter-ions are in the special cases; idempotence and equivariance are required up to '
           'equivalent localised forms when the skeleton has equivalent atoms; 11 further in-place operations (kekule, thiele, clean_*, remove_*, saturate, fix_stereo ...) are checked for cache coherence only.',
    'C03': 'The curated list also holds direction marks on the opening / closing / both ring-closure digits, stereo marks on mapped atoms, the interdependent and the isotopic-H families.',
    'C05': 'Aromatic texts as a person writes them (bond between two aromatic rings left implicit; one or two hetero atoms that the library repairs by rule), each paired with a Kekule text in the same atom order: kekule, enumerate_kekule, copy+kekule and enumerate-then-kekule as the FIRST conversion of the freshly parsed object under every GEN renumbering.',
    'C02': 'Isotopic hydrogen atoms on stereo elements, even cumulenes and substituted allenes are part of the families.',
}
_ADD2 = {
    'C02': 'One-atom molecules for 118 elements x charge -4..+4 x radical x isotope (restored, pairwise distinct strings); chains / two chains / ion pair + chain of 11-13 atoms with radicals at every position (two-digit indices in the extension block).',
    'C04': 'Bracket atoms as delivered by the SMILES reader (12 elements x H {none,0..4} x charge -2..2 x 7 frames x radical mark) must carry a hydrogen count for which their state has a valence entry.',
    'C05': 'Azolide anions and ring radicals are in the family; hydrogen counts the aromatic form carries as parsed must equal those of the Kekule text.',
    'C08': 'Atoms with three or four double bonds and with a triple next to a double bond are in the molecule set.',
    'C09': 'Every element 1..118 as molecule atom x hybridisation label 1..4 x constrained queries of each kind; derived objects (copies, enumerated Kekule forms, enumerated tautomers, substructure, union, in-place kekule) of a molecule whose packed structure is cached.',
    'C12': 'A carbinol centre between two equal tri-substituted double bonds: label present exactly when the arms differ (hand-asserted), under every own and RDKit spelling.',
    'C13': 'I0: rebuilding a parsed molecule keeps its labels; I6: an in-place edit that leaves a labelled element and its substituents untouched, the element still stereogenic by colour refinement, keeps label and sign; the public cis/trans call from either end is an event; an allene is among the quick medium seeds.',
    'C14': 'The set of enumerated tautomers (canonical strings) of 17 azoles and the tautomer-stereo family is the same for every numbering, with the aromaticity pruning off and on.',
    'C15': 'Order invariance is also required of format(reaction, spec) for 9 option strings; the option !c must keep the given order.',
    'C16': 'The model stage includes reactant pairs with 2x3, 3x2, 2x4 and 3x4 non-equivalent sites.',
    'C17': 'The direction of a chain text is a function of the structure (judged apart from the recorded aromatic-case finding).',
    'C18': 'Element(delta_isotope=d), d in -1, 0, +1, gives reference + d and its tabulated mass.',
}
_ADD3 = {
    'C01': 'Strings written with 7 format options are required to be numbering independent as well.',
    'C09': 'Targets are also built with non-ascending insertion order (storage order differs from ascending numbers), searched with and without scopes.',
    'C11': 'Two-session files are written through str and pathlib targets.',
    'C14': 'Every acid of the salt-stripping table x three bases is in the cache-coherence stage.',
    'C15': 'The condensed-graph string is also compared under two sparse consistent renumberings.',
    'C16': 'Exhaustive mode is also driven with a template that gives two product molecules per site (ester hydrolysis) incl. spectators; unnamed labelled centres at ring-closing positions are among the Transformer inputs.',
    'C17': 'linear_hash_smiles / linear_smiles_hash are compared under 5 (radius, cap) settings, positional and keyword.',
    'C20': 'Hetero-atom stereo marks (S, P, N+) next to carbon centres: RDKit -> chython must equal the library reading of the same text for every RDKit atom order.',
}
for _k, _v in list(_ADD.items()) + list(_ADD2.items()) + list(_ADD3.items()):
    CHECKS[_k]['text'] += ' ' + _v
