"""One table from which MANIFEST.json is generated (bin/mkmanifest)."""
CHECKS = {}


def reg(pid, text, note, technique, design_ref, thorough=True):
    CHECKS[pid] = dict(text=text, note=note, technique=technique, design_ref=design_ref, thorough=thorough)


reg('C06',
    'Every labelled connected graph with <=7 atoms, 1..5 rings, degree<=4 (791 015 graphs; thorough adds n=8 with <=3 rings) is pushed through '
    'the real ring-perception code and judged by an independent Horton/GF(2) minimum-cycle-basis oracle: count, simple cycles, independence, '
    'minimum size multiset, atom/bond ring marks, ring-size marks, components. Enumerating all labelled graphs is enumerating all numberings, '
    'so numbering independence is decided inside the bound, not sampled. Ring assemblies, macrocycles 9..70 and test/cycle.sdf under the GEN '
    'renumbering family extend the scope beyond 7 atoms (bounded, enumerated completely).',
    'Trusted: the oracle in vf/oracle/cycles.py (matroid-greedy MCB over Horton candidates; bridges by brute force). Molecules above 8 atoms are '
    'covered only by the deterministic assembly families. Out of domain by the property text: theta cores whose three bridges have >=3 bonds, '
    'cyclomatic number >=6 on <=7 atoms.',
    'explicit bounded-exhaustive state enumeration (all labelled graphs n<=7/8) on the real implementation vs. reference model',
    'DESIGN.md s5 C06')
