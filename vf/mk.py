"""Molecule construction helpers (through chython's public constructor path)."""
from chython import MoleculeContainer
from chython.periodictable import Element


def build(atoms, bonds, skip=False):
    """atoms: iterable of (number, symbol[, attrs dict]); bonds: iterable of (a, b, order).
    skip=False: plain public add_atom/add_bond (labels recomputed after every call);
    skip=True : private _skip_calculation fast path followed by ONE fix_structure()/fix_stereo()."""
    m = MoleculeContainer()
    for t in atoms:
        n, sym = t[0], t[1]
        kw = t[2] if len(t) > 2 else {}
        atom = Element.from_symbol(sym)(**kw) if kw else sym
        if skip:
            m.add_atom(atom, n, _skip_calculation=True)
        else:
            m.add_atom(atom, n)
    for a, b, o in bonds:
        if skip:
            m.add_bond(a, b, o, _skip_calculation=True)
        else:
            m.add_bond(a, b, o)
    if skip:
        m.fix_structure()
        m.fix_stereo()
    return m


def carbon_graph(n_or_nodes, edges, skip=False, order8=None):
    nodes = range(1, n_or_nodes + 1) if isinstance(n_or_nodes, int) else n_or_nodes
    return build([(i, 'C') for i in nodes],
                 [(a, b, 8 if order8 is not None and (a, b) == order8 else 1) for a, b in edges], skip=skip)
